//! C17 harnesses of the external crate: portable (v128) and native (avx2, pclmul, sse4) code
//! paths against the baseline ones and against scalar definitions, for all inputs.
use super::*;

macro_rules! backend_lanewise {
    ($modname:ident, $be:ident) => {
        mod $modname {
            use crate::$be::*;
            use crate::{intrinsics, kmodels};

            #[kani::proof]
            #[kani::stub(core::arch::x86_64::_mm_max_epu8, kmodels::mm_max_epu8)]
            #[kani::stub(core::arch::x86_64::_mm256_max_epu8, intrinsics::mm256_max_epu8)]
            pub(super) fn u8x32() {
                let a: [u8; 32] = kani::any();
                let b: [u8; 32] = kani::any();
                let (va, vb) = unsafe { (u8x32::loadu(a.as_ptr()), u8x32::loadu(b.as_ptr())) };
                let i: usize = kani::any();
                kani::assume(i < 32);
                let m: u32 = va.eq(&vb).bitmask();
                assert_eq!((m >> i) & 1 == 1, a[i] == b[i]);
                let m: u32 = va.le(&vb).bitmask();
                assert_eq!((m >> i) & 1 == 1, a[i] <= b[i]);
                let c: u8 = kani::any();
                let mut out = [0u8; 32];
                unsafe { u8x32::splat(c).storeu(out.as_mut_ptr()) };
                assert_eq!(out[i], c);
                unsafe { va.storeu(out.as_mut_ptr()) };
                assert_eq!(out[i], a[i]);
                kani::cover!(a[i] < b[i]);
            }

            #[kani::proof]
            pub(super) fn i8x32() {
                let a: [u8; 32] = kani::any();
                let b: [u8; 32] = kani::any();
                let (va, vb) = unsafe { (i8x32::loadu(a.as_ptr()), i8x32::loadu(b.as_ptr())) };
                let i: usize = kani::any();
                kani::assume(i < 32);
                let (x, y) = (a[i] as i8, b[i] as i8);
                let m: u32 = va.gt(&vb).bitmask();
                assert_eq!((m >> i) & 1 == 1, x > y);
                let m: u32 = va.le(&vb).bitmask();
                assert_eq!((m >> i) & 1 == 1, x <= y);
                let m: u32 = va.eq(&vb).bitmask();
                assert_eq!((m >> i) & 1 == 1, x == y);
                let c: i8 = kani::any();
                let mut out = [0u8; 32];
                unsafe { i8x32::splat(c).storeu(out.as_mut_ptr()) };
                assert_eq!(out[i] as i8, c);
                kani::cover!(x < 0 && y >= 0);
            }

            #[kani::proof]
            #[kani::stub(core::arch::x86_64::_mm_max_epu8, kmodels::mm_max_epu8)]
            #[kani::stub(core::arch::x86_64::_mm256_max_epu8, intrinsics::mm256_max_epu8)]
            pub(super) fn u8x64() {
                let a: [u8; 64] = kani::any();
                let b: [u8; 64] = kani::any();
                let (va, vb) = unsafe { (u8x64::loadu(a.as_ptr()), u8x64::loadu(b.as_ptr())) };
                let i: usize = kani::any();
                kani::assume(i < 64);
                let m: u64 = va.eq(&vb).bitmask();
                assert_eq!((m >> i) & 1 == 1, a[i] == b[i]);
                let m: u64 = va.le(&vb).bitmask();
                assert_eq!((m >> i) & 1 == 1, a[i] <= b[i]);
                kani::cover!(a[i] < b[i]);
            }

            #[kani::proof]
            pub(super) fn mask_ops() {
                let a: [u8; 32] = kani::any();
                let x: u8 = kani::any();
                let y: u8 = kani::any();
                let va = unsafe { u8x32::loadu(a.as_ptr()) };
                let i: usize = kani::any();
                kani::assume(i < 32);
                let or: u32 = (va.eq(&u8x32::splat(x)) | va.eq(&u8x32::splat(y))).bitmask();
                assert_eq!((or >> i) & 1 == 1, a[i] == x || a[i] == y);
                let and: u32 = (va.eq(&u8x32::splat(x)) & va.eq(&u8x32::splat(y))).bitmask();
                assert_eq!((and >> i) & 1 == 1, a[i] == x && a[i] == y);
                let mut acc = m8x32::splat(false);
                acc |= va.eq(&u8x32::splat(x));
                acc |= va.eq(&u8x32::splat(y));
                assert_eq!(acc.bitmask(), or);
                assert_eq!(m8x32::splat(true).bitmask(), u32::MAX);
                assert_eq!(m8x32::splat(false).bitmask(), 0);
                kani::cover!(and != 0);
            }
        }
    };
}

backend_lanewise!(k_portable, portable);
backend_lanewise!(k_native, native);

/// prefix_xor: PCLMUL version == shift/xor fallback == scalar prefix parity, all 2^64 masks.
#[kani::proof]
#[kani::stub(core::arch::x86_64::_mm_clmulepi64_si128, intrinsics::mm_clmulepi64_si128)]
fn k_arch_prefix_xor() {
    let m: u64 = kani::any();
    let a = unsafe { arch_native::prefix_xor(m) };
    let b = unsafe { arch_fallback::prefix_xor(m) };
    assert_eq!(a, b);
    // scalar definition: bit i = parity of bits 0..=i
    let i: u32 = kani::any();
    kani::assume(i < 64);
    let below = if i == 63 { m } else { m & ((1u64 << (i + 1)) - 1) };
    assert_eq!((b >> i) & 1, (below.count_ones() & 1) as u64);
    kani::cover!(a != 0 && a != u64::MAX);
}

/// get_nonspace_bits: PSHUFB classifier == byte loop == scalar definition, all 64-byte blocks.
#[kani::proof]
#[kani::stub(core::arch::x86_64::_mm256_shuffle_epi8, intrinsics::mm256_shuffle_epi8)]
fn k_arch_nonspace_native() {
    let d: [u8; 64] = kani::any();
    let a = unsafe { arch_native::get_nonspace_bits(&d) };
    let i: usize = kani::any();
    kani::assume(i < 64);
    let c = d[i];
    let ws = c == b' ' || c == b'\t' || c == b'\n' || c == b'\r';
    assert_eq!((a >> i) & 1 == 1, !ws);
    kani::cover!(ws);
    kani::cover!(!ws && c < 0x20);
}

#[kani::proof]
fn k_arch_nonspace_fallback() {
    let d: [u8; 64] = kani::any();
    let a = unsafe { arch_fallback::get_nonspace_bits(&d) };
    let i: usize = kani::any();
    kani::assume(i < 64);
    let c = d[i];
    let ws = c == b' ' || c == b'\t' || c == b'\n' || c == b'\r';
    assert_eq!((a >> i) & 1 == 1, !ws);
    kani::cover!(ws);
}

/// simd_str2int: SSE version == scalar fallback for every 16-byte input, one harness per value
/// of `need` in 1..=16, under the callers' precondition (first byte is a digit; see
/// parse_number_fraction).
fn str2int_body(need: usize) {
    let d: [u8; 16] = kani::any();
    kani::assume(d[0] >= b'0' && d[0] <= b'9');
    let a = unsafe { num_native::simd_str2int(&d, need) };
    let b = unsafe { num_fallback::simd_str2int(&d, need) };
    assert_eq!(a, b);
    kani::cover!(a.1 == need);
    kani::cover!(a.1 < need || need == 1);
}

macro_rules! str2int_harness {
    ($($name:ident: $need:expr),*) => {
        $(
            #[kani::proof]
            #[kani::unwind(18)]
            #[kani::stub(core::arch::x86_64::_mm_maddubs_epi16, intrinsics::mm_maddubs_epi16)]
            #[kani::stub(core::arch::x86_64::_mm_madd_epi16, intrinsics::mm_madd_epi16)]
            #[kani::stub(core::arch::x86_64::_mm_packus_epi32, intrinsics::mm_packus_epi32)]
            #[kani::stub(core::arch::x86_64::_mm_sub_epi8, intrinsics::mm_sub_epi8)]
            fn $name() {
                str2int_body($need);
            }
        )*
    };
}

str2int_harness!(k_num_str2int_1: 1, k_num_str2int_2: 2, k_num_str2int_3: 3, k_num_str2int_4: 4, k_num_str2int_5: 5,
    k_num_str2int_6: 6, k_num_str2int_7: 7, k_num_str2int_8: 8, k_num_str2int_9: 9, k_num_str2int_10: 10,
    k_num_str2int_11: 11, k_num_str2int_12: 12, k_num_str2int_13: 13, k_num_str2int_14: 14, k_num_str2int_15: 15,
    k_num_str2int_16: 16);
