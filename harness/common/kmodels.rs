//! Environment models and cuts used as `#[kani::stub]` targets (cfg(kani) only).
//! Every use is listed per harness in /verif/plan.py and copied into the evidence file.
#![allow(dead_code)]

use core::arch::x86_64::__m128i;

#[inline(always)]
fn mx(a: u8, b: u8) -> u8 {
    if a > b {
        a
    } else {
        b
    }
}

/// Lane-wise model of `_mm_max_epu8` (Kani does not support the `simd_select` it lowers to).
/// Intel pseudo-code: FOR j := 0 to 15: dst[j] := MAX(a[j], b[j]) (unsigned bytes).
/// Validated natively against the real instruction by /verif/selftest (all 65536 byte pairs
/// in every lane).
pub unsafe fn mm_max_epu8(a: __m128i, b: __m128i) -> __m128i {
    let x: [u8; 16] = core::mem::transmute(a);
    let y: [u8; 16] = core::mem::transmute(b);
    let r: [u8; 16] = [
        mx(x[0], y[0]),
        mx(x[1], y[1]),
        mx(x[2], y[2]),
        mx(x[3], y[3]),
        mx(x[4], y[4]),
        mx(x[5], y[5]),
        mx(x[6], y[6]),
        mx(x[7], y[7]),
        mx(x[8], y[8]),
        mx(x[9], y[9]),
        mx(x[10], y[10]),
        mx(x[11], y[11]),
        mx(x[12], y[12]),
        mx(x[13], y[13]),
        mx(x[14], y[14]),
        mx(x[15], y[15]),
    ];
    core::mem::transmute(r)
}

/// Cut of `core::fmt::write`: harnesses whose subject is not message formatting do not depend
/// on rendered text; one reachable `write!` otherwise drags float formatting into the formula.
pub fn fmt_write_cut(_out: &mut dyn core::fmt::Write, _args: core::fmt::Arguments<'_>) -> core::fmt::Result {
    Ok(())
}

/// Cut of `alloc::fmt::format` (same reason).
pub fn fmt_format_cut(_args: core::fmt::Arguments<'_>) -> String {
    String::new()
}
