//! C18 environment model of the atomic cell behind the two publish-once caches.
//!
//! Kani executes atomics sequentially, so the *schedule* is moved into this model: at every
//! atomic step of the reader under test (load, compare-exchange) another reader may run first
//! and publish its own freshly allocated decoding (the reader selected by `INTERFERE_KIND`
//! is invoked under a nondeterministic choice), and `compare_exchange_weak` may fail
//! spuriously. For two readers every interleaving at atomic-step granularity is one of "the
//! other publish lands before my load / between my load and my CAS / after my CAS"; the choices
//! enumerate exactly these. The model is sequentially consistent (memory ordering adequacy is
//! outside the claim).
//!
//! In the scratch copy the `AtomicPtr` import of lazyvalue/value.rs and lazyvalue/owned.rs is
//! redirected here under cfg(kani); outside Kani the real std type is used.
use core::cell::UnsafeCell;
use core::sync::atomic::Ordering;

/// which "other reader" runs at an atomic step: 0 = none, 1 = value.rs reader with reference ledger,
/// 2 = value.rs reader without ledger, 3 = owned.rs reader, 4 = owned.rs reader at one chosen step.
/// (Direct calls instead of a function pointer: CBMC's function-pointer removal dispatches to every
/// address-taken function of the same signature, which made unrelated drop glue reachable.)
pub(crate) static mut INTERFERE_KIND: u8 = 0;
pub(crate) static mut ATOMIC_STEPS: u8 = 0;
pub(crate) static mut SPURIOUS: u8 = 0;

pub(crate) struct AtomicPtr<T> {
    p: UnsafeCell<*mut T>,
}

unsafe impl<T> Sync for AtomicPtr<T> {}
unsafe impl<T> Send for AtomicPtr<T> {}

impl<T> AtomicPtr<T> {
    pub(crate) const fn new(p: *mut T) -> Self {
        Self { p: UnsafeCell::new(p) }
    }

    #[inline(never)]
    fn step(&self) {
        unsafe {
            ATOMIC_STEPS = ATOMIC_STEPS.wrapping_add(1);
            if INTERFERE_KIND != 0 && kani::any() {
                let cell = self.p.get() as *mut *mut u8;
                match INTERFERE_KIND {
                    1 => crate::lazyvalue::value::verif_kani_lazy_value::other_reader_publishes(cell),
                    2 => crate::lazyvalue::value::verif_kani_lazy_value::other_reader_publishes_plain(cell),
                    3 => crate::lazyvalue::owned::verif_kani_lazy_owned::other_reader_publishes(cell),
                    _ => crate::lazyvalue::owned::verif_kani_lazy_owned::other_publishes_at_step(cell),
                }
            }
        }
    }

    pub(crate) fn load(&self, _o: Ordering) -> *mut T {
        self.step();
        unsafe { *self.p.get() }
    }

    pub(crate) fn get_mut(&mut self) -> &mut *mut T {
        self.p.get_mut()
    }

    pub(crate) fn compare_exchange(
        &self,
        current: *mut T,
        new: *mut T,
        _s: Ordering,
        _f: Ordering,
    ) -> Result<*mut T, *mut T> {
        self.step();
        unsafe {
            let cur = *self.p.get();
            if cur == current {
                *self.p.get() = new;
                Ok(cur)
            } else {
                Err(cur)
            }
        }
    }

    pub(crate) fn compare_exchange_weak(
        &self,
        current: *mut T,
        new: *mut T,
        s: Ordering,
        f: Ordering,
    ) -> Result<*mut T, *mut T> {
        // allowed to fail spuriously: returns the value it observed without storing
        if kani::any() {
            unsafe {
                SPURIOUS = SPURIOUS.wrapping_add(1);
                self.step();
                return Err(*self.p.get());
            }
        }
        self.compare_exchange(current, new, s, f)
    }
}
