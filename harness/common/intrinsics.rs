//! Lane-wise models (from the Intel intrinsics guide pseudo-code) of the x86 intrinsics that
//! lower to LLVM intrinsics Kani cannot execute. Used as `#[kani::stub]` targets by the C17
//! harnesses in the external crate; validated natively against the real instructions on this
//! CPU by /verif/selftest (that validates the *model*; it decides no property).
#![allow(dead_code)]

use core::arch::x86_64::{__m128i, __m256i};
use core::mem::transmute;

#[inline(always)]
fn mx(a: u8, b: u8) -> u8 {
    if a > b {
        a
    } else {
        b
    }
}

pub unsafe fn mm256_max_epu8(a: __m256i, b: __m256i) -> __m256i {
    let x: [u8; 32] = transmute(a);
    let y: [u8; 32] = transmute(b);
    let mut r = [0u8; 32];
    let mut i = 0;
    while i < 32 {
        r[i] = mx(x[i], y[i]);
        i += 1;
    }
    transmute(r)
}

/// VPSHUFB: per 128-bit lane, dst[i] = if b[i] & 0x80 { 0 } else { a[lane + (b[i] & 0x0F)] }
pub unsafe fn mm256_shuffle_epi8(a: __m256i, b: __m256i) -> __m256i {
    let x: [u8; 32] = transmute(a);
    let y: [u8; 32] = transmute(b);
    let mut r = [0u8; 32];
    let mut i = 0;
    while i < 32 {
        let base = i & 16;
        r[i] = if y[i] & 0x80 != 0 { 0 } else { x[base + (y[i] & 0x0F) as usize] };
        i += 1;
    }
    transmute(r)
}

/// PCLMULQDQ: carry-less product of the 64-bit halves selected by IMM8 bit 0 (of a) and bit 4 (of b).
pub unsafe fn mm_clmulepi64_si128<const IMM8: i32>(a: __m128i, b: __m128i) -> __m128i {
    let x: [u64; 2] = transmute(a);
    let y: [u64; 2] = transmute(b);
    let p = x[(IMM8 & 1) as usize];
    let q = y[((IMM8 >> 4) & 1) as usize];
    let mut acc: u128 = 0;
    let mut i = 0;
    while i < 64 {
        if (q >> i) & 1 == 1 {
            acc ^= (p as u128) << i;
        }
        i += 1;
    }
    transmute(acc)
}

#[inline(always)]
fn sat_i16(v: i32) -> i16 {
    if v > i16::MAX as i32 {
        i16::MAX
    } else if v < i16::MIN as i32 {
        i16::MIN
    } else {
        v as i16
    }
}

/// PMADDUBSW: dst16[j] = sat_i16(u8(a[2j]) * i8(b[2j]) + u8(a[2j+1]) * i8(b[2j+1]))
pub unsafe fn mm_maddubs_epi16(a: __m128i, b: __m128i) -> __m128i {
    let x: [u8; 16] = transmute(a);
    let y: [i8; 16] = transmute(b);
    let mut r = [0i16; 8];
    let mut j = 0;
    while j < 8 {
        let p = (x[2 * j] as i32) * (y[2 * j] as i32) + (x[2 * j + 1] as i32) * (y[2 * j + 1] as i32);
        r[j] = sat_i16(p);
        j += 1;
    }
    transmute(r)
}

/// PMADDWD: dst32[j] = a16[2j] * b16[2j] + a16[2j+1] * b16[2j+1] (signed, wrapping)
pub unsafe fn mm_madd_epi16(a: __m128i, b: __m128i) -> __m128i {
    let x: [i16; 8] = transmute(a);
    let y: [i16; 8] = transmute(b);
    let mut r = [0i32; 4];
    let mut j = 0;
    while j < 4 {
        r[j] = ((x[2 * j] as i32) * (y[2 * j] as i32)).wrapping_add((x[2 * j + 1] as i32) * (y[2 * j + 1] as i32));
        j += 1;
    }
    transmute(r)
}

#[inline(always)]
fn sat_u16(v: i32) -> u16 {
    if v < 0 {
        0
    } else if v > 0xFFFF {
        0xFFFF
    } else {
        v as u16
    }
}

/// PACKUSDW: dst16[0..4] = sat_u16(a32[j]), dst16[4..8] = sat_u16(b32[j])
pub unsafe fn mm_packus_epi32(a: __m128i, b: __m128i) -> __m128i {
    let x: [i32; 4] = transmute(a);
    let y: [i32; 4] = transmute(b);
    let r: [u16; 8] = [
        sat_u16(x[0]),
        sat_u16(x[1]),
        sat_u16(x[2]),
        sat_u16(x[3]),
        sat_u16(y[0]),
        sat_u16(y[1]),
        sat_u16(y[2]),
        sat_u16(y[3]),
    ];
    transmute(r)
}

/// PSUBB: lane-wise wrapping subtraction (Kani's `simd_sub` flags the wrap-around that the
/// instruction defines as its result).
pub unsafe fn mm_sub_epi8(a: __m128i, b: __m128i) -> __m128i {
    let x: [u8; 16] = transmute(a);
    let y: [u8; 16] = transmute(b);
    let mut r = [0u8; 16];
    let mut i = 0;
    while i < 16 {
        r[i] = x[i].wrapping_sub(y[i]);
        i += 1;
    }
    transmute(r)
}
