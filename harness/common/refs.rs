//! Reference models ("what the text means"), written as short scalar code.
//!
//! This file is compiled twice:
//!  * under `cfg(kani)` as `crate::verif_refs` inside the scratch copy of sonic-rs
//!    (and of sonic-number), where the harnesses compare the real code against it;
//!  * natively by /verif/selftest, which pushes the repository's own test inputs and an
//!    exhaustive enumeration of short strings over a JSON alphabet through these functions
//!    and through serde_json / std, and aborts the run on any disagreement.
//!
//! Everything is allocation-free and every loop is bounded by the input length, so that
//! CBMC can unroll it with the harness' unwind bound.
#![allow(dead_code)]

#[inline]
pub fn is_ws(c: u8) -> bool {
    c == b' ' || c == b'\t' || c == b'\n' || c == b'\r'
}

#[inline]
pub fn is_digit(c: u8) -> bool {
    c >= b'0' && c <= b'9'
}

#[inline]
pub fn is_hex(c: u8) -> bool {
    (c >= b'0' && c <= b'9') || (c >= b'a' && c <= b'f') || (c >= b'A' && c <= b'F')
}

#[inline]
pub fn hex_val(c: u8) -> u32 {
    if c >= b'0' && c <= b'9' {
        (c - b'0') as u32
    } else if c >= b'a' && c <= b'f' {
        (c - b'a') as u32 + 10
    } else {
        (c - b'A') as u32 + 10
    }
}

/// The one-character escapes of RFC 8259 and the byte they denote (0 = not an escape).
#[inline]
pub fn simple_escape(c: u8) -> u8 {
    match c {
        b'"' => b'"',
        b'\\' => b'\\',
        b'/' => b'/',
        b'b' => 0x08,
        b'f' => 0x0c,
        b'n' => b'\n',
        b'r' => b'\r',
        b't' => b'\t',
        _ => 0,
    }
}

#[inline]
pub fn is_value_start(c: u8) -> bool {
    c == b'-' || is_digit(c) || c == b'"' || c == b'[' || c == b'{' || c == b't' || c == b'f' || c == b'n'
}

/// First index `>= i` holding a non-whitespace byte, or `n`.
pub fn ref_skip_ws(b: &[u8], n: usize, mut i: usize) -> usize {
    while i < n && is_ws(b[i]) {
        i += 1;
    }
    i
}

/// `i` is the index just after an opening quote in `b[..n]`. Returns the index just after the
/// closing quote iff the bytes form an RFC 8259 string literal (grammar only: every byte
/// >= 0x20, every backslash followed by one of `"\/bfnrt` or by `u` and four hex digits).
/// UTF-8 validity and surrogate pairing are separate questions.
pub fn ref_string_end(b: &[u8], n: usize, mut i: usize) -> Option<usize> {
    while i < n {
        let c = b[i];
        if c == b'"' {
            return Some(i + 1);
        }
        if c < 0x20 {
            return None;
        }
        if c == b'\\' {
            if i + 1 >= n {
                return None;
            }
            let e = b[i + 1];
            if e == b'u' {
                if i + 6 > n {
                    return None;
                }
                if !(is_hex(b[i + 2]) && is_hex(b[i + 3]) && is_hex(b[i + 4]) && is_hex(b[i + 5])) {
                    return None;
                }
                i += 6;
            } else if simple_escape(e) != 0 {
                i += 2;
            } else {
                return None;
            }
        } else {
            i += 1;
        }
    }
    None
}

/// Does the literal body `b[from..to]` contain a backslash?
pub fn ref_has_backslash(b: &[u8], from: usize, to: usize) -> bool {
    let mut i = from;
    while i < to {
        if b[i] == b'\\' {
            return true;
        }
        i += 1;
    }
    false
}

/// "Unchecked" view of a string literal: `i` is just after the opening quote of a literal that
/// is known to be well formed; returns the index after the first quote that is not preceded by
/// an odd run of backslashes (what every skipper that trusts its input must find).
pub fn ref_string_end_trusting(b: &[u8], n: usize, mut i: usize) -> Option<usize> {
    while i < n {
        let c = b[i];
        if c == b'\\' {
            i += 2;
            continue;
        }
        if c == b'"' {
            return Some(i + 1);
        }
        i += 1;
    }
    None
}

/// `i` is the index of the first byte (`-` or a digit) of a number in `b[..n]`.
/// Returns the index just after the longest prefix that the RFC 8259 number grammar
/// `-? (0 | [1-9][0-9]*) (. [0-9]+)? ([eE] [+-]? [0-9]+)?` admits, *provided no shorter/longer
/// reading exists that a JSON text could continue with*: a `.` or exponent marker that is not
/// followed by a digit, a leading zero followed by a digit, or a bare `-` make the whole
/// input ill-formed in every context, so they yield None.
pub fn ref_number_end(b: &[u8], n: usize, mut i: usize) -> Option<usize> {
    if i < n && b[i] == b'-' {
        i += 1;
    }
    if i >= n || !is_digit(b[i]) {
        return None;
    }
    if b[i] == b'0' {
        i += 1;
        if i < n && is_digit(b[i]) {
            return None;
        }
    } else {
        while i < n && is_digit(b[i]) {
            i += 1;
        }
    }
    if i < n && b[i] == b'.' {
        i += 1;
        if i >= n || !is_digit(b[i]) {
            return None;
        }
        while i < n && is_digit(b[i]) {
            i += 1;
        }
    }
    if i < n && (b[i] == b'e' || b[i] == b'E') {
        i += 1;
        if i < n && (b[i] == b'+' || b[i] == b'-') {
            i += 1;
        }
        if i >= n || !is_digit(b[i]) {
            return None;
        }
        while i < n && is_digit(b[i]) {
            i += 1;
        }
    }
    Some(i)
}

/// `i` is the index of `t`, `f` or `n`. End of the literal or None.
pub fn ref_literal_end(b: &[u8], n: usize, i: usize) -> Option<usize> {
    let lit: &[u8] = match b[i] {
        b't' => b"true",
        b'f' => b"false",
        b'n' => b"null",
        _ => return None,
    };
    if i + lit.len() > n {
        return None;
    }
    let mut k = 0;
    while k < lit.len() {
        if b[i + k] != lit[k] {
            return None;
        }
        k += 1;
    }
    Some(i + lit.len())
}

/// Full RFC 8259 value recogniser (iterative, explicit stack of at most 32 open containers).
/// `i` is the index of the first byte of the value (no leading whitespace).
/// Returns the index just after the value, or None if `b[i..n]` does not start with a
/// well-formed value (or nests deeper than 32, which the callers exclude).
pub fn ref_value_end(b: &[u8], n: usize, i: usize) -> Option<usize> {
    // stack bit: 1 = object, 0 = array
    let mut stack: u64 = 0;
    let mut depth: u32 = 0;
    let mut i = i;
    // state: 0 = expect value, 1 = after value (expect , or close), 2 = expect key or },
    //        3 = expect key (after comma)
    let mut state = 0u8;
    loop {
        match state {
            0 => {
                if i >= n {
                    return None;
                }
                let c = b[i];
                if c == b'"' {
                    i = ref_string_end(b, n, i + 1)?;
                    state = 1;
                } else if c == b'-' || is_digit(c) {
                    i = ref_number_end(b, n, i)?;
                    state = 1;
                } else if c == b't' || c == b'f' || c == b'n' {
                    i = ref_literal_end(b, n, i)?;
                    state = 1;
                } else if c == b'[' {
                    if depth >= 32 {
                        return None;
                    }
                    stack <<= 1;
                    depth += 1;
                    i = ref_skip_ws(b, n, i + 1);
                    if i < n && b[i] == b']' {
                        i += 1;
                        depth -= 1;
                        stack >>= 1;
                        state = 1;
                    } else {
                        state = 0;
                    }
                } else if c == b'{' {
                    if depth >= 32 {
                        return None;
                    }
                    stack = (stack << 1) | 1;
                    depth += 1;
                    i += 1;
                    state = 2;
                } else {
                    return None;
                }
            }
            1 => {
                if depth == 0 {
                    return Some(i);
                }
                i = ref_skip_ws(b, n, i);
                if i >= n {
                    return None;
                }
                let c = b[i];
                if stack & 1 == 1 {
                    if c == b'}' {
                        i += 1;
                        depth -= 1;
                        stack >>= 1;
                    } else if c == b',' {
                        i += 1;
                        state = 3;
                    } else {
                        return None;
                    }
                } else if c == b']' {
                    i += 1;
                    depth -= 1;
                    stack >>= 1;
                } else if c == b',' {
                    i = ref_skip_ws(b, n, i + 1);
                    state = 0;
                } else {
                    return None;
                }
            }
            _ => {
                // 2: key or }, 3: key
                i = ref_skip_ws(b, n, i);
                if i >= n {
                    return None;
                }
                let c = b[i];
                if c == b'}' && state == 2 {
                    i += 1;
                    depth -= 1;
                    stack >>= 1;
                    state = 1;
                } else if c == b'"' {
                    i = ref_string_end(b, n, i + 1)?;
                    i = ref_skip_ws(b, n, i);
                    if i >= n || b[i] != b':' {
                        return None;
                    }
                    i = ref_skip_ws(b, n, i + 1);
                    state = 0;
                } else {
                    return None;
                }
            }
        }
    }
}

/// A whole JSON text: optional whitespace, one value, optional whitespace, end.
pub fn ref_is_json_text(b: &[u8], n: usize) -> bool {
    let i = ref_skip_ws(b, n, 0);
    if i >= n {
        return false;
    }
    match ref_value_end(b, n, i) {
        Some(e) => ref_skip_ws(b, n, e) == n,
        None => false,
    }
}

/// Line (1-based) and column of byte offset `idx` (clamped to n) exactly as the documentation of
/// `Error::line`/`Error::column` defines them: the column counts the bytes since the last
/// newline before `idx`.
pub fn ref_line_col(b: &[u8], n: usize, idx: usize) -> (usize, usize) {
    let idx = if idx > n { n } else { idx };
    let mut line = 1;
    let mut col = 0;
    let mut i = 0;
    while i < idx {
        if b[i] == b'\n' {
            line += 1;
            col = 0;
        } else {
            col += 1;
        }
        i += 1;
    }
    (line, col)
}

/// Result of decoding one `\uXXXX` escape sequence (possibly a surrogate pair) that starts at
/// `b[i]` == the first hex digit (i.e. just after `\u`).
#[derive(Clone, Copy, PartialEq, Eq, Debug)]
pub enum RefEsc {
    /// a scalar value and the index after everything that was decoded
    Scalar(u32, usize),
    /// malformed (bad hex, truncated, unpaired surrogate in strict mode)
    Bad,
}

fn hex4(b: &[u8], n: usize, i: usize) -> Option<u32> {
    if i + 4 > n {
        return None;
    }
    if !(is_hex(b[i]) && is_hex(b[i + 1]) && is_hex(b[i + 2]) && is_hex(b[i + 3])) {
        return None;
    }
    Some((hex_val(b[i]) << 12) | (hex_val(b[i + 1]) << 8) | (hex_val(b[i + 2]) << 4) | hex_val(b[i + 3]))
}

/// UTF-16 semantics of `\u` escapes (what `char::decode_utf16` does to the code units):
/// a high surrogate must be followed immediately by `\u` + low surrogate; anything else is an
/// unpaired surrogate, which is an error in strict mode and becomes U+FFFD in lossy mode
/// *consuming only the unpaired unit itself*.
pub fn ref_decode_u_escape(b: &[u8], n: usize, i: usize, lossy: bool) -> RefEsc {
    let p1 = match hex4(b, n, i) {
        Some(v) => v,
        None => return RefEsc::Bad,
    };
    let after1 = i + 4;
    if (0xD800..0xDC00).contains(&p1) {
        if after1 + 6 <= n && b[after1] == b'\\' && b[after1 + 1] == b'u' {
            if let Some(p2) = hex4(b, n, after1 + 2) {
                if (0xDC00..0xE000).contains(&p2) {
                    let cp = 0x10000 + (((p1 - 0xD800) << 10) | (p2 - 0xDC00));
                    return RefEsc::Scalar(cp, after1 + 6);
                }
            }
        }
        if lossy {
            RefEsc::Scalar(0xFFFD, after1)
        } else {
            RefEsc::Bad
        }
    } else if (0xDC00..0xE000).contains(&p1) {
        if lossy {
            RefEsc::Scalar(0xFFFD, after1)
        } else {
            RefEsc::Bad
        }
    } else {
        RefEsc::Scalar(p1, after1)
    }
}

/// UTF-8 encoding of a scalar value; returns the length (1..=4) and the bytes.
pub fn ref_encode_utf8(cp: u32) -> (usize, [u8; 4]) {
    if cp < 0x80 {
        (1, [cp as u8, 0, 0, 0])
    } else if cp < 0x800 {
        (2, [0xC0 | (cp >> 6) as u8, 0x80 | (cp & 0x3F) as u8, 0, 0])
    } else if cp < 0x10000 {
        (
            3,
            [
                0xE0 | (cp >> 12) as u8,
                0x80 | ((cp >> 6) & 0x3F) as u8,
                0x80 | (cp & 0x3F) as u8,
                0,
            ],
        )
    } else {
        (
            4,
            [
                0xF0 | (cp >> 18) as u8,
                0x80 | ((cp >> 12) & 0x3F) as u8,
                0x80 | ((cp >> 6) & 0x3F) as u8,
                0x80 | (cp & 0x3F) as u8,
            ],
        )
    }
}

/// Decode the literal whose body starts at `i` (just after the opening quote) into `out`.
/// Returns (end index after closing quote, decoded length) or None if the literal is malformed
/// in strict mode (grammar, bad escape, unpaired surrogate). `out` must hold the body length.
pub fn ref_decode_string(b: &[u8], n: usize, mut i: usize, lossy: bool, out: &mut [u8]) -> Option<(usize, usize)> {
    let mut o = 0;
    while i < n {
        let c = b[i];
        if c == b'"' {
            return Some((i + 1, o));
        }
        if c < 0x20 {
            return None;
        }
        if c == b'\\' {
            if i + 1 >= n {
                return None;
            }
            let e = b[i + 1];
            if e == b'u' {
                match ref_decode_u_escape(b, n, i + 2, lossy) {
                    RefEsc::Scalar(cp, next) => {
                        let (l, bytes) = ref_encode_utf8(cp);
                        let mut k = 0;
                        while k < l {
                            out[o + k] = bytes[k];
                            k += 1;
                        }
                        o += l;
                        i = next;
                    }
                    RefEsc::Bad => return None,
                }
            } else {
                let v = simple_escape(e);
                if v == 0 {
                    return None;
                }
                out[o] = v;
                o += 1;
                i += 2;
            }
        } else {
            out[o] = c;
            o += 1;
            i += 1;
        }
    }
    None
}

/// JSON string escaping as sonic-rs specifies it: `"` and `\` get a backslash, the C0 controls
/// with a short form use it (\b \t \n \f \r), the other C0 controls become \u00XX (lower-case
/// hex), every other byte is copied verbatim. Returns the number of bytes written to `out`.
pub fn ref_escape(s: &[u8], n: usize, quote: bool, out: &mut [u8]) -> usize {
    let mut o = 0;
    if quote {
        out[o] = b'"';
        o += 1;
    }
    let mut i = 0;
    while i < n {
        let c = s[i];
        if c == b'"' || c == b'\\' {
            out[o] = b'\\';
            out[o + 1] = c;
            o += 2;
        } else if c < 0x20 {
            let short = match c {
                0x08 => b'b',
                0x09 => b't',
                0x0a => b'n',
                0x0c => b'f',
                0x0d => b'r',
                _ => 0,
            };
            if short != 0 {
                out[o] = b'\\';
                out[o + 1] = short;
                o += 2;
            } else {
                const HEX: &[u8; 16] = b"0123456789abcdef";
                out[o] = b'\\';
                out[o + 1] = b'u';
                out[o + 2] = b'0';
                out[o + 3] = b'0';
                out[o + 4] = HEX[(c >> 4) as usize];
                out[o + 5] = HEX[(c & 0xF) as usize];
                o += 6;
            }
        } else {
            out[o] = c;
            o += 1;
        }
        i += 1;
    }
    if quote {
        out[o] = b'"';
        o += 1;
    }
    o
}

/// Bracket/quote/escape machine that defines what the bitmap container skipper must compute:
/// starting just after an opening `left`, with the given string/escape state, find the index
/// after the matching `right`. Brackets inside strings do not count; a backslash inside or
/// outside a string escapes the next byte (the real skipper treats them alike and is only
/// required to be right on well-formed input, where backslashes occur only inside strings).
pub fn ref_container_end(b: &[u8], n: usize, mut i: usize, left: u8, right: u8) -> Option<usize> {
    let mut depth: usize = 1;
    let mut in_str = false;
    while i < n {
        let c = b[i];
        if in_str {
            if c == b'\\' {
                i += 2;
                continue;
            }
            if c == b'"' {
                in_str = false;
            }
        } else if c == b'"' {
            in_str = true;
        } else if c == left {
            depth += 1;
        } else if c == right {
            depth -= 1;
            if depth == 0 {
                return Some(i + 1);
            }
        }
        i += 1;
    }
    None
}
