//! C18 E-lazy: the publish-once cache of LazyValue's decoded string under every two-reader
//! interleaving (environment model of the atomic cell: harness/common/atomic_shim.rs).
use super::*;
use crate::verif_atomic::{ATOMIC_STEPS, INTERFERE_KIND};
use std::mem::ManuallyDrop;

/// ledger of every decoding ever created (by the reader under test or by the other reader):
/// the harness keeps one extra strong handle per decoding, so at the end each must have a
/// strong count of exactly 1 - more means a leaked reference, fewer means an over-release
/// (which CBMC reports as use-after-free when the count is read).
static mut LEDGER: [*const String; 4] = [core::ptr::null(); 4];
static mut CREATED: usize = 0;
static mut OTHER_PUBLISHED: u8 = 0;

fn arc_new_ledger<T>(data: T) -> Arc<T> {
    let a: Arc<T> = Arc::from(Box::new(data));
    unsafe {
        let extra = Arc::into_raw(a.clone());
        assert!(CREATED < 4);
        LEDGER[CREATED] = extra as *const String;
        CREATED += 1;
    }
    a
}

/// the other reader: decodes on its own and publishes iff the cell is still empty
pub(crate) unsafe fn other_reader_publishes(cell: *mut *mut u8) {
    if (*cell).is_null() {
        let s = String::from("x");
        let p = Arc::into_raw(arc_new_ledger(s)) as *mut u8;
        *cell = p;
        OTHER_PUBLISHED += 1;
    }
}

/// Cut of the decoder: `from_slice_unchecked::<String>(raw)` -> the fixed decoding "x".
fn cut_from_slice_unchecked<'a, T>(_json: &'a [u8]) -> crate::Result<T>
where
    T: serde::de::Deserialize<'a>,
{
    let s = ManuallyDrop::new(String::from("x"));
    // in this harness T is String
    Ok(unsafe { core::mem::transmute_copy::<ManuallyDrop<String>, T>(&s) })
}

fn check_ledger() {
    unsafe {
        let mut k = 0;
        while k < 4 {
            if k < CREATED {
                let a = ManuallyDrop::new(Arc::from_raw(LEDGER[k]));
                assert_eq!(Arc::strong_count(&a), 1, "decoding leaked or over-released");
            }
            k += 1;
        }
    }
}

/// C18 E-lazy: two calls of `parse_from` (as_str) by the reader under test, a clone in between
/// or after (symbolic), drops in symbolic order; the other reader may publish at any atomic
/// step. Every read returns the decoding, exactly one decoding stays cached until the value
/// and its clone are dropped, every decoding ever created ends with no outstanding reference.
fn lazy_body(ledger: bool) {
    unsafe {
        INTERFERE_KIND = if ledger { 1 } else { 2 };
        CREATED = 0;
        OTHER_PUBLISHED = 0;
    }
    let raw: &[u8] = b"\"\\u0078\"";
    let inner = Inner {
        status: HasEsc::Yes,
        unescaped: AtomicPtr::new(std::ptr::null_mut()),
    };
    let clone_first: bool = kani::any();
    let c0 = if clone_first { Some(inner.clone()) } else { None };
    // C13: a clone taken before anything was decoded still knows that its text has escapes
    if let Some(c) = &c0 {
        assert!(c.status == HasEsc::Yes);
    }
    let r1 = inner.parse_from(raw);
    assert_eq!(r1, Some("x"));
    let p1 = r1.unwrap().as_ptr();
    let c1 = if !clone_first { Some(inner.clone()) } else { None };
    let r2 = inner.parse_from(raw);
    assert_eq!(r2, Some("x"));
    // publish-once: the second read sees the same cached decoding
    assert_eq!(r2.unwrap().as_ptr(), p1);
    // the clone taken after the first read shares it
    if let Some(c) = &c1 {
        assert!(c.status == HasEsc::Yes);
        let rc = c.parse_from(raw);
        assert_eq!(rc.unwrap().as_ptr(), p1);
    }
    // no more interference while dropping (drops need exclusive access)
    unsafe { INTERFERE_KIND = 0 };
    let drop_clone_first: bool = kani::any();
    if drop_clone_first {
        drop(c0);
        drop(c1);
        drop(inner);
    } else {
        drop(inner);
        drop(c1);
        drop(c0);
    }
    if ledger {
        check_ledger();
    }
    kani::cover!(unsafe { OTHER_PUBLISHED } == 1);
    kani::cover!(unsafe { OTHER_PUBLISHED } == 0);
    kani::cover!(unsafe { ATOMIC_STEPS } >= 4);
}

/// Variant with the reference ledger (extra handle per decoding): decides leaks and
/// over-releases by counting.
#[kani::proof]
#[kani::unwind(6)]
#[kani::stub(crate::serde::de::from_slice_unchecked, cut_from_slice_unchecked)]
#[kani::stub(std::sync::Arc::new, arc_new_ledger)]
fn e_lazy_parse_from() {
    lazy_body(true);
}

/// Variant without any extra handle: every decoding really is freed when its last owner lets
/// go, so CBMC's dealloc-layout, double-free and use-after-free checks see the real frees
/// (a decoding released through the wrong type is freed with the wrong layout).
#[kani::proof]
#[kani::unwind(6)]
#[kani::stub(crate::serde::de::from_slice_unchecked, cut_from_slice_unchecked)]
fn e_lazy_parse_from_frees() {
    lazy_body(false);
}

pub(crate) unsafe fn other_reader_publishes_plain(cell: *mut *mut u8) {
    if (*cell).is_null() {
        let s = String::from("x");
        *cell = Arc::into_raw(Arc::new(s)) as *mut u8;
        OTHER_PUBLISHED += 1;
    }
}
