//! C12/C20 M-iter-latch: one step of the lazy iterators from an arbitrary (first, ending) state.
use super::*;
use crate::parser::ParseStatus;

static mut DRIVER_CALLS: u8 = 0;

/// abstract per-element driver: any of {element, end, error}
fn model_array_elem<'de, R: Reader<'de>>(
    p: &mut Parser<R>,
    first: &mut bool,
    _check: bool,
) -> Result<Option<(&'de [u8], ParseStatus)>> {
    unsafe { DRIVER_CALLS = DRIVER_CALLS.wrapping_add(1) };
    *first = false;
    let k: u8 = kani::any();
    if k == 0 {
        Ok(None)
    } else if k == 1 {
        Ok(Some((p.read.slice_unchecked(0, 1), ParseStatus::None)))
    } else {
        Err(crate::error::verif_kani_error::syntax_cut(
            crate::error::ErrorCode::InvalidJsonValue,
            p.read.as_u8_slice(),
            0,
        ))
    }
}

fn model_entry<'de, R: Reader<'de>>(
    p: &mut Parser<R>,
    _strbuf: &mut Vec<u8>,
    first: &mut bool,
    _check: bool,
) -> Result<Option<Pair<'de>>> {
    unsafe { DRIVER_CALLS = DRIVER_CALLS.wrapping_add(1) };
    *first = false;
    let k: u8 = kani::any();
    if k == 0 {
        Ok(None)
    } else if k == 1 {
        Ok(Some(Pair {
            key: Cow::Borrowed("k"),
            val: p.read.slice_unchecked(0, 1),
            status: ParseStatus::None,
        }))
    } else {
        Err(crate::error::verif_kani_error::syntax_cut(
            crate::error::ErrorCode::InvalidJsonValue,
            p.read.as_u8_slice(),
            0,
        ))
    }
}

/// After the array iterator has yielded an error or the end (or if it is already ended),
/// every later call yields None: one step from an arbitrary state => forever.
#[kani::proof]
#[kani::unwind(4)]
#[kani::stub(crate::parser::Parser::parse_array_elem_lazy, model_array_elem)]
#[kani::stub(crate::error::Error::syntax, crate::error::verif_kani_error::syntax_cut)]
fn m_array_iter_latch() {
    let data = b"[1]";
    let bad_utf8: bool = kani::any();
    let mut it = ArrayJsonIter {
        parser: Parser::new(crate::reader::verif_kani_reader::read_with_utf8_verdict(&data[..], if bad_utf8 { 1 } else { usize::MAX })),
        first: kani::any(),
        ending: kani::any(),
        skip_strict: kani::any(),
    };
    // anywhere in the input, including its very end: whether more input is left is the driver's
    // business (it reports EOF), not a reason for the iterator to end quietly
    let pos: usize = kani::any();
    kani::assume(pos <= data.len());
    it.parser.read.set_index(pos);
    unsafe { DRIVER_CALLS = 0 };
    let was_ending = it.ending;
    let was_first = it.first;
    let a = it.next_elem_impl();
    if !was_ending && !(bad_utf8 && was_first) {
        assert_eq!(unsafe { DRIVER_CALLS }, 1);
    } else {
        assert_eq!(unsafe { DRIVER_CALLS }, 0);
    }
    kani::cover!(pos == data.len() && !was_ending && !bad_utf8);
    let terminal = match &a {
        None => true,
        Some(Err(_)) => true,
        Some(Ok(_)) => false,
    };
    if was_ending {
        assert!(a.is_none());
    }
    assert_eq!(it.ending, terminal);
    let b = it.next_elem_impl();
    if terminal {
        assert!(b.is_none());
        assert!(it.ending);
    }
    kani::cover!(!was_ending && matches!(&a, Some(Err(_))));
    kani::cover!(!was_ending && a.is_none());
    kani::cover!(!terminal && matches!(&b, Some(Ok(_))));
    kani::cover!(bad_utf8 && !was_ending && matches!(&a, Some(Err(_))));
    core::mem::forget(a);
    core::mem::forget(b);
    core::mem::forget(it);
}

#[kani::proof]
#[kani::unwind(4)]
#[kani::stub(crate::parser::Parser::parse_entry_lazy, model_entry)]
#[kani::stub(crate::error::Error::syntax, crate::error::verif_kani_error::syntax_cut)]
fn m_object_iter_latch() {
    let data = b"{1}";
    let bad_utf8: bool = kani::any();
    let mut it = ObjectJsonIter {
        parser: Parser::new(crate::reader::verif_kani_reader::read_with_utf8_verdict(&data[..], if bad_utf8 { 1 } else { usize::MAX })),
        strbuf: Vec::new(),
        first: kani::any(),
        ending: kani::any(),
        skip_strict: kani::any(),
    };
    // anywhere in the input, including its very end: whether more input is left is the driver's
    // business (it reports EOF), not a reason for the iterator to end quietly
    let pos: usize = kani::any();
    kani::assume(pos <= data.len());
    it.parser.read.set_index(pos);
    unsafe { DRIVER_CALLS = 0 };
    let was_ending = it.ending;
    let was_first = it.first;
    let a = it.next_entry_impl();
    if !was_ending && !(bad_utf8 && was_first) {
        assert_eq!(unsafe { DRIVER_CALLS }, 1);
    } else {
        assert_eq!(unsafe { DRIVER_CALLS }, 0);
    }
    kani::cover!(pos == data.len() && !was_ending && !bad_utf8);
    let terminal = match &a {
        None => true,
        Some(Err(_)) => true,
        Some(Ok(_)) => false,
    };
    if was_ending {
        assert!(a.is_none());
    }
    assert_eq!(it.ending, terminal);
    let b = it.next_entry_impl();
    if terminal {
        assert!(b.is_none());
        assert!(it.ending);
    }
    kani::cover!(!was_ending && matches!(&a, Some(Err(_))));
    kani::cover!(!was_ending && a.is_none());
    kani::cover!(!terminal && matches!(&b, Some(Ok(_))));
    kani::cover!(bad_utf8 && !was_ending && matches!(&a, Some(Err(_))));
    core::mem::forget(a);
    core::mem::forget(b);
    core::mem::forget(it);
}
