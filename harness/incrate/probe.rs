use super::*;

#[kani::proof]
fn probe_escaped_u64() {
    let mut prev: u64 = kani::any();
    kani::assume(prev <= 1);
    let bs: u64 = kani::any();
    let p0 = prev;
    let esc = get_escaped_branchless_u64(&mut prev, bs);
    // scalar definition
    let mut e: u64 = 0;
    let mut pending = p0 == 1;
    let mut i = 0;
    while i < 64 {
        let is_bs = (bs >> i) & 1 == 1;
        if pending { e |= 1u64 << i; pending = false; }
        else if is_bs { pending = true; }
        i += 1;
    }
    assert_eq!(esc, e);
    assert_eq!(prev, pending as u64);
}

#[kani::proof]
fn probe_whitespace() {
    let c: u8 = kani::any();
    assert_eq!(is_whitespace(c), c == b' ' || c == b'\n' || c == b'\r' || c == b'\t');
}
