//! Harnesses inside `crate::util::unicode`.
use super::*;
use crate::verif_refs::*;

/// C09/C01 K-hex: all 2^32 four-byte groups; table offsets stay in range (Kani bounds checks).
#[kani::proof]
fn k_hex_to_u32() {
    let h: [u8; 4] = kani::any();
    let v = unsafe { hex_to_u32_nocheck(&h) };
    if is_hex(h[0]) && is_hex(h[1]) && is_hex(h[2]) && is_hex(h[3]) {
        let expect = (hex_val(h[0]) << 12) | (hex_val(h[1]) << 8) | (hex_val(h[2]) << 4) | hex_val(h[3]);
        assert_eq!(v, expect);
    } else {
        // must be recognisable as invalid by every caller: not a scalar value, not a surrogate
        assert!(v > 0x10FFFF);
    }
    kani::cover!(v == 0xD800);
    kani::cover!(v > 0x10FFFF);
}

/// C09/C01 K-utf8: every u32; at most 4 bytes written.
#[kani::proof]
fn k_codepoint_to_utf8() {
    let cp: u32 = kani::any();
    let mut out = [0u8; 4];
    let n = unsafe { codepoint_to_utf8(cp, out.as_mut_ptr()) };
    if cp <= 0x10FFFF {
        let (l, bytes) = ref_encode_utf8(cp);
        assert_eq!(n, l);
        let i: usize = kani::any();
        kani::assume(i < l);
        assert_eq!(out[i], bytes[i]);
    } else {
        assert_eq!(n, 0);
    }
    kani::cover!(n == 4);
    kani::cover!(n == 0);
}

/// C09 K-unicode (in-place decoder): for all 12-byte sequences `\uXXXX` + 6 arbitrary bytes,
/// strict and lossy, handle_unicode_codepoint_mut decodes exactly what UTF-16 semantics
/// prescribe, advances the source by exactly the bytes it decoded and writes <= 4 bytes.
#[kani::proof]
fn k_unicode_inplace() {
    let mut src: [u8; 12] = kani::any();
    src[0] = b'\\';
    src[1] = b'u';
    let lossy: bool = kani::any();
    let mut dst = [0u8; 4];
    let mut sp = src.as_ptr();
    let mut dp = dst.as_mut_ptr();
    let ok = unsafe { handle_unicode_codepoint_mut(&mut sp, &mut dp, lossy) };
    let consumed = unsafe { sp.offset_from(src.as_ptr()) } as usize;
    let written = unsafe { dp.offset_from(dst.as_mut_ptr()) } as usize;
    match ref_decode_u_escape(&src, 12, 2, lossy) {
        RefEsc::Scalar(cp, next) => {
            assert!(ok);
            assert_eq!(consumed, next);
            let (l, bytes) = ref_encode_utf8(cp);
            assert_eq!(written, l);
            let i: usize = kani::any();
            kani::assume(i < l);
            assert_eq!(dst[i], bytes[i]);
        }
        RefEsc::Bad => assert!(!ok),
    }
    kani::cover!(ok && consumed == 12);
    kani::cover!(ok && lossy && consumed == 6 && written == 3 && src[2] == b'd');
    kani::cover!(!ok && !lossy);
}
