//! C13 / C18 harnesses inside `crate::lazyvalue::owned`.
use super::*;
use crate::{lazyvalue::value::HasEsc, JsonType};

fn lit(k: u8) -> (&'static [u8], JsonType) {
    match k {
        0 => (b"true", JsonType::Boolean),
        1 => (b"false", JsonType::Boolean),
        2 => (b"null", JsonType::Null),
        3 => (b"1", JsonType::Number),
        4 => (b"-2", JsonType::Number),
        5 => (b"\"a\"", JsonType::String),
        6 => (b"[]", JsonType::Array),
        _ => (b"{}", JsonType::Object),
    }
}

/// C13/C01 U-owned-literals: converting a borrowed lazy value of every JSON type to an owned one
/// (and building one from raw text as to_lazyvalue does) keeps the type and the bool/null
/// answers, and never reaches an `unreachable!`.
fn owned_types_body(via_new: bool, k: u8) {
    let (raw, ty) = lit(k);
    // HasEsc::None is only used for escape-free strings by the callers
    let esc: bool = if ty == JsonType::String { kani::any() } else { true };
    let status = if esc { HasEsc::Possible } else { HasEsc::None };
    let o = if via_new {
        OwnedLazyValue::new(JsonSlice::Raw(raw), status)
    } else {
        OwnedLazyValue::from(LazyValue::new(JsonSlice::Raw(raw), status))
    };
    assert!(o.get_type() == ty);
    assert_eq!(o.as_bool(), if k == 0 { Some(true) } else if k == 1 { Some(false) } else { None });
    assert_eq!(o.is_null(), k == 2);
    assert_eq!(o.is_str(), k == 5);
    core::mem::forget(o);
}

#[kani::proof]
#[kani::unwind(10)]
fn u_owned_from_lazy_types() {
    let mut k = 0u8;
    while k < 8 {
        owned_types_body(false, k);
        k += 1;
    }
}

#[kani::proof]
#[kani::unwind(10)]
fn u_owned_new_types() {
    let mut k = 0u8;
    while k < 8 {
        owned_types_body(true, k);
        k += 1;
    }
}

// ---- C18 E-owned --------------------------------------------------------------------------------

use crate::verif_atomic::{ATOMIC_STEPS, INTERFERE_KIND};

static mut OTHER_BOX: *mut Parsed = core::ptr::null_mut();
static mut OTHER_PUBLISHED: u8 = 0;

/// the other reader: parses on its own and publishes iff the cell is still empty
pub(crate) unsafe fn other_reader_publishes(cell: *mut *mut u8) {
    if (*cell).is_null() {
        let b = Box::into_raw(Box::new(Parsed::Bool(false)));
        OTHER_BOX = b;
        *cell = b as *mut u8;
        OTHER_PUBLISHED += 1;
    }
}

/// Cut: the reader built over the raw text is not used by the (cut) one-level parser.
fn cut_read_from<'a, I: crate::JsonInput<'a>>(_input: I) -> crate::Read<'a> {
    crate::Read::new(&[], false)
}

/// Cut: releasing a `Box<Parsed>` runs the recursive drop glue of the whole owned-lazy value
/// type, which CBMC cannot unroll (out of memory at 12 GB during symbolic execution). In the
/// E-owned harnesses `mem::drop` therefore leaks; which box is *returned* is still decided,
/// that the loser's box is *freed* is not (stated in the claim).
static mut DROP_CALLS: u8 = 0;
fn drop_cut<T>(x: T) {
    // the release itself is cut (leaked), but that it was *asked for* is recorded: a reader that
    // loses the publish race must hand its own box to `drop` exactly once
    unsafe { DROP_CALLS = DROP_CALLS.wrapping_add(1) };
    core::mem::forget(x)
}

/// Cut of the one-level parser: the reader under test always decodes to `Bool(true)`,
/// the other reader to `Bool(false)`, so the harness can tell whose decoding a reference denotes.
fn cut_load_owned_lazyvalue<'de, R: crate::reader::Reader<'de>>(
    _p: &mut crate::parser::Parser<R>,
    _strbuf: &mut Vec<u8>,
) -> Result<OwnedLazyValue> {
    unsafe { LOAD_CALLS = LOAD_CALLS.wrapping_add(1) };
    Ok(OwnedLazyValue(LazyPacked::Parsed(Parsed::Bool(true))))
}
static mut LOAD_CALLS: u8 = 0;

/// C18 E-owned: `loads` loads by the reader under test on one shared LazyRaw, the other reader may
/// publish at any atomic step: every load returns the one decoding that is cached (never a
/// dangling or null reference) and the cell holds exactly that decoding afterwards.
fn owned_load_body(two_loads: bool) {
    unsafe {
        INTERFERE_KIND = 3;
        OTHER_PUBLISHED = 0;
        OTHER_BOX = core::ptr::null_mut();
        DROP_CALLS = 0;
        LOAD_CALLS = 0;
    }
    let mut lr = LazyRaw {
        raw: FastStr::from_static_str("[1]"),
        parsed: AtomicPtr::new(std::ptr::null_mut()),
    };
    let r1 = lr.load();
    let p1: *const Parsed = *r1.as_ref().ok().unwrap();
    core::mem::forget(r1);
    let mine1 = matches!(unsafe { &*p1 }, Parsed::Bool(true));
    if two_loads {
        let r2 = lr.load();
        let p2: *const Parsed = *r2.as_ref().ok().unwrap();
        core::mem::forget(r2);
        // publish-once: both reads denote the same cached decoding
        assert_eq!(p1, p2);
    }
    let other = unsafe { OTHER_PUBLISHED } == 1;
    if other {
        assert_eq!(p1, unsafe { OTHER_BOX } as *const Parsed);
        assert!(!mine1);
    } else {
        assert!(mine1);
    }
    // a decoding made by the reader under test that did not get published is released (once);
    // nothing is released when its decoding is the published one
    let decoded = unsafe { LOAD_CALLS } >= 1;
    let lost = other && decoded;
    assert!(unsafe { LOAD_CALLS } <= 1);
    assert_eq!(unsafe { DROP_CALLS }, lost as u8);
    kani::cover!(lost);
    unsafe { INTERFERE_KIND = 0 };
    assert_eq!(*lr.parsed.get_mut() as *const Parsed, p1);
    // (clone_lazyraw is not exercised here: cloning a Parsed runs the recursive clone glue of the
    // whole owned-lazy value type, which does not fit next to the loads)
    core::mem::forget(lr);
    kani::cover!(other);
    kani::cover!(!other);
    kani::cover!(unsafe { ATOMIC_STEPS } >= 2);
}

#[kani::proof]
#[kani::unwind(2)]
#[kani::stub(crate::parser::Parser::load_owned_lazyvalue, cut_load_owned_lazyvalue)]
#[kani::stub(crate::reader::Read::from, cut_read_from)]
#[kani::stub(core::mem::drop, drop_cut)]
fn e_owned_load1() {
    owned_load_body(false);
}

#[kani::proof]
#[kani::unwind(2)]
#[kani::stub(crate::parser::Parser::load_owned_lazyvalue, cut_load_owned_lazyvalue)]
#[kani::stub(crate::reader::Read::from, cut_read_from)]
#[kani::stub(core::mem::drop, drop_cut)]
fn e_owned_load() {
    owned_load_body(true);
}

/// C01/C13/C16-adjacent E-owned-parse: a shared read that fills the cache followed by a
/// mutable access that takes the cached decoding out (`LazyRaw::parse`) and the final drop:
/// the decoding is handed over exactly once (CBMC's double-free / use-after-free checks).
#[kani::proof]
#[kani::unwind(2)]
#[kani::stub(crate::parser::Parser::load_owned_lazyvalue, cut_load_owned_lazyvalue)]
#[kani::stub(crate::reader::Read::from, cut_read_from)]
#[kani::stub(core::mem::drop, drop_cut)]
fn e_owned_load_then_parse() {
    unsafe { INTERFERE_KIND = 0 };
    let mut lr = LazyRaw {
        raw: FastStr::from_static_str("[1]"),
        parsed: AtomicPtr::new(std::ptr::null_mut()),
    };
    let filled: bool = kani::any();
    if filled {
        let r = lr.load();
        assert!(r.is_ok());
        core::mem::forget(r);
    }
    let taken = lr.parse();
    assert!(matches!(taken.as_ref().ok().unwrap(), Parsed::Bool(true)));
    // the cache no longer owns the decoding (otherwise Drop for LazyRaw would free it a second time)
    assert!((*lr.parsed.get_mut()).is_null());
    core::mem::forget(taken);
    core::mem::forget(lr);
    kani::cover!(filled);
    kani::cover!(!filled);
}

/// C13 U-owned-mut-probe: a failed `as_array_mut()` / `as_object_mut()` probe on an unparsed
/// value of another type leaves the value untouched (still raw, same text), so it still
/// serializes back to its source text verbatim. (Concrete raw texts: with a symbolic one the
/// replaced-value path, whose drop glue does not fit, is explored syntactically.)
/// none of the four probes below may decode the value at all: a decode here is already the
/// violation (and the path is ended, because the replaced value's drop glue does not fit)
fn cut_load_forbidden<'de, R: crate::reader::Reader<'de>>(
    _p: &mut crate::parser::Parser<R>,
    _strbuf: &mut Vec<u8>,
) -> Result<OwnedLazyValue> {
    assert!(false, "a mutable container probe decoded a value of another type");
    kani::assume(false);
    Ok(OwnedLazyValue(LazyPacked::Parsed(Parsed::Bool(true))))
}

fn mut_probe_body(raw: &'static [u8], want_array: bool) {
    let mut o = OwnedLazyValue::new(JsonSlice::Raw(raw), HasEsc::Possible);
    let hit = if want_array { o.as_array_mut().is_some() } else { o.as_object_mut().is_some() };
    assert!(!hit);
    kani::cover!(!hit);
    match &o.0 {
        LazyPacked::Raw(r) => assert!(r.raw.as_bytes().len() == raw.len() && r.raw.as_bytes()[0] == raw[0]),
        _ => panic!("a failed mutable probe must not replace the raw value"),
    }
    core::mem::forget(o);
}

#[kani::proof]
#[kani::unwind(6)]
#[kani::stub(crate::parser::Parser::load_owned_lazyvalue, cut_load_forbidden)]
#[kani::stub(crate::reader::Read::from, cut_read_from)]
#[kani::stub(core::mem::drop, drop_cut)]
fn u_owned_mut_probe_keeps_raw() {
    mut_probe_body(b"1.50", true);
    mut_probe_body(b"\"a\\/b\"", false);
    mut_probe_body(b"{}", true);
    mut_probe_body(b"[]", false);
}

/// C13 U-owned-get-mut-probe: `get_mut` with an index kind that cannot apply (a key into a
/// number, a string or an array; a position into an object) answers None without decoding and
/// leaves the value raw, so it still serializes back to its source text.
fn get_mut_probe_body<I: crate::index::Index>(raw: &'static [u8], idx: I) {
    use crate::JsonValueMutTrait;
    let mut o = OwnedLazyValue::new(JsonSlice::Raw(raw), HasEsc::Possible);
    let hit = o.get_mut(idx).is_some();
    assert!(!hit);
    kani::cover!(!hit);
    match &o.0 {
        LazyPacked::Raw(r) => assert!(r.raw.as_bytes().len() == raw.len() && r.raw.as_bytes()[0] == raw[0]),
        _ => panic!("a failed mutable lookup must not replace the raw value"),
    }
    core::mem::forget(o);
}

#[kani::proof]
#[kani::unwind(6)]
#[kani::stub(crate::parser::Parser::load_owned_lazyvalue, cut_load_forbidden)]
#[kani::stub(crate::reader::Read::from, cut_read_from)]
#[kani::stub(core::mem::drop, drop_cut)]
fn u_owned_get_mut_probe_keeps_raw() {
    get_mut_probe_body(b"1.50", "k");
    get_mut_probe_body(b"1E2", 0usize);
    get_mut_probe_body(b"\"a\\/b\"", "k");
    get_mut_probe_body(b"[]", "k");
    get_mut_probe_body(b"{}", 0usize);
}

/// C13 U-owned-clone-loaded: cloning an owned-lazy value whose decoding is already cached (any
/// shared accessor ran) yields a value that is still the raw text -- same bytes, so it serializes
/// verbatim and `as_raw_number` still answers -- and that owns its own copy of the cache
/// (F12: the clone became the *decoded* value: 1.50 -> 1.5, "A\/B" -> "A/B").
/// The cached decoding is a concrete scalar; container decodings (recursive clone glue) are outside.
fn clone_loaded_body(raw: &'static str, cached: Parsed, loaded: bool) {
    let cache = if loaded { Box::into_raw(Box::new(cached)) } else { core::mem::forget(cached); std::ptr::null_mut() };
    let o = LazyPacked::Raw(LazyRaw { raw: FastStr::from_static_str(raw), parsed: AtomicPtr::new(cache) });
    let c = o.clone();
    match &c {
        LazyPacked::Raw(r) => {
            assert!(r.raw.as_bytes().len() == raw.len());
            assert!(r.raw.as_bytes()[0] == raw.as_bytes()[0] && r.raw.as_bytes()[raw.len() - 1] == raw.as_bytes()[raw.len() - 1]);
            let p = r.parsed.load(Ordering::Acquire);
            // the clone never shares the original's box (each LazyRaw frees its own on drop)
            assert!(p.is_null() || p != cache);
            assert!(loaded || p.is_null());
        }
        _ => panic!("the clone of a raw value must still be the raw text"),
    }
    core::mem::forget(c);
    core::mem::forget(o);
    kani::cover!(true);
}

#[kani::proof]
#[kani::unwind(4)]
#[kani::stub(core::mem::drop, drop_cut)]
fn u_owned_clone_loaded_keeps_raw() {
    unsafe { INTERFERE_KIND = 0 };
    clone_loaded_body("1.50", Parsed::Bool(true), true);
}

#[kani::proof]
#[kani::unwind(4)]
#[kani::stub(core::mem::drop, drop_cut)]
fn u_owned_clone_unloaded_keeps_raw() {
    unsafe { INTERFERE_KIND = 0 };
    clone_loaded_body("\"A\\/B\"", Parsed::Null, false);
}

/// C13/C01 U-owned-view: the shared views returned by `as_array()` / `as_object()` of a value
/// that is still raw are usable -- `len()`, `is_empty()` and iteration go through `Deref`, which
/// has to find the children that `as_array` only loaded into the cache (F8: it panicked with
/// "must be a lazy array"). The one-level parser is cut to an empty container of the kind asked
/// for; no second reader (INTERFERE_KIND = 0).
static mut VIEW_KIND: u8 = 0;
fn cut_load_empty_container<'de, R: crate::reader::Reader<'de>>(
    _p: &mut crate::parser::Parser<R>,
    _strbuf: &mut Vec<u8>,
) -> Result<OwnedLazyValue> {
    if unsafe { VIEW_KIND } == 0 {
        Ok(OwnedLazyValue(LazyPacked::Parsed(Parsed::LazyArray(Vec::new()))))
    } else {
        Ok(OwnedLazyValue(LazyPacked::Parsed(Parsed::LazyObject(Vec::new()))))
    }
}

fn view_body(kind: u8) {
    use crate::JsonValueTrait;
    unsafe {
        INTERFERE_KIND = 0;
        VIEW_KIND = kind;
    }
    if kind == 0 {
        let o = OwnedLazyValue(LazyPacked::Raw(LazyRaw { raw: FastStr::from_static_str("[]"), parsed: AtomicPtr::new(std::ptr::null_mut()) }));
        let v = o.as_array();
        assert!(v.is_some(), "a raw array is an array");
        assert!(v.unwrap().len() == 0);
        core::mem::forget(o);
    } else {
        let o = OwnedLazyValue(LazyPacked::Raw(LazyRaw { raw: FastStr::from_static_str("{}"), parsed: AtomicPtr::new(std::ptr::null_mut()) }));
        let v = o.as_object();
        assert!(v.is_some(), "a raw object is an object");
        assert!(v.unwrap().len() == 0);
        core::mem::forget(o);
    }
}

#[kani::proof]
#[kani::unwind(2)]
#[kani::stub(crate::parser::Parser::load_owned_lazyvalue, cut_load_empty_container)]
#[kani::stub(crate::reader::Read::from, cut_read_from)]
#[kani::stub(core::mem::drop, drop_cut)]
fn u_owned_view_of_raw_array() {
    view_body(0);
}

#[kani::proof]
#[kani::unwind(2)]
#[kani::stub(crate::parser::Parser::load_owned_lazyvalue, cut_load_empty_container)]
#[kani::stub(crate::reader::Read::from, cut_read_from)]
#[kani::stub(core::mem::drop, drop_cut)]
fn u_owned_view_of_raw_object() {
    view_body(1);
}

static mut ONLY_STEP: u8 = 0;
pub(crate) unsafe fn other_publishes_at_step(cell: *mut *mut u8) {
    if ATOMIC_STEPS == ONLY_STEP {
        other_reader_publishes(cell)
    }
}

// ---- C13 U-owned-from-touched -------------------------------------------------------------------

/// Cut of the decoder behind `LazyValue::as_str`: `from_slice_unchecked::<String>(raw)` -> "x".
fn cut_from_slice_unchecked_x<'a, T>(_json: &'a [u8]) -> crate::Result<T>
where
    T: serde::de::Deserialize<'a>,
{
    let s = core::mem::ManuallyDrop::new(String::from("x"));
    Ok(unsafe { core::mem::transmute_copy::<core::mem::ManuallyDrop<String>, T>(&s) })
}

/// C13 U-owned-from-touched: converting a borrowed lazy string whose text has escapes into an
/// owned value gives the same result whether or not `as_str()` decoded (and cached) it before:
/// the owned value is still the unparsed raw text, byte for byte, with an empty cache - so it
/// serializes back to its source text verbatim (a re-escaped decoding would not: `\u0078`).
#[kani::proof]
#[kani::unwind(10)]
#[kani::stub(crate::serde::de::from_slice_unchecked, cut_from_slice_unchecked_x)]
fn u_owned_from_lazy_after_as_str() {
    unsafe { INTERFERE_KIND = 0 };
    let raw: &'static [u8] = b"\"\\u0078\"";
    let lv = LazyValue::new(JsonSlice::Raw(raw), HasEsc::Possible);
    let touch: bool = kani::any();
    let cloned: bool = kani::any();
    let lv = if touch {
        assert!(lv.as_str().is_some());
        if cloned {
            // a clone shares the cached decoding
            let c = lv.clone();
            core::mem::forget(lv);
            c
        } else {
            lv
        }
    } else {
        lv
    };
    let o = OwnedLazyValue::from(lv);
    match &o.0 {
        LazyPacked::Raw(r) => {
            let b = r.raw.as_bytes();
            assert_eq!(b.len(), raw.len());
            let i: usize = kani::any();
            kani::assume(i < raw.len());
            assert_eq!(b[i], raw[i]);
        }
        _ => panic!("an escaped string converted to an owned lazy value is no longer its raw text"),
    }
    kani::cover!(touch && cloned);
    kani::cover!(!touch);
    core::mem::forget(o);
}
