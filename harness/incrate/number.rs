//! Harnesses inside the `sonic_number` crate root.
use super::*;
use crate::verif_refs::*;

/// Cut of `parse_float`: the integer/grammar harnesses decide classification and index only;
/// the float construction tiers are separate (k_float_fast_*) or outside the claim.
fn parse_float_cut(
    _significant: u64,
    _exponent: i32,
    negative: bool,
    _trunc: bool,
    _raw_num: &[u8],
) -> Result<ParserNumber, Error> {
    let ok: bool = kani::any();
    if ok {
        Ok(ParserNumber::Float(if negative { -1.5 } else { 1.5 }))
    } else {
        Err(Error::FloatMustBeFinite)
    }
}

/// C07 U-parse_number-int: for every string of LO..=HI decimal digits without a superfluous
/// leading zero, with and without a minus sign, the result is the exact integer (Unsigned, or
/// Signed when negative) whenever it fits u64 / i64, and a float otherwise; `-0` is the float
/// negative zero; the index stops after the digits. The expected value is computed in u128.
fn int_body<const L: usize>(lo: usize, hi: usize) -> (u128, bool, usize) {
    let d: [u8; L] = kani::any();
    let len: usize = kani::any();
    kani::assume(len >= lo && len <= hi && len <= L);
    let mut v: u128 = 0;
    let mut i = 0;
    while i < L {
        if i < len {
            kani::assume(is_digit(d[i]));
            v = v * 10 + (d[i] - b'0') as u128;
        }
        i += 1;
    }
    kani::assume(d[0] != b'0' || len == 1);
    let neg: bool = kani::any();
    let mut idx = 0usize;
    let r = parse_number(&d[..len], &mut idx, neg);
    match &r {
        Ok(ParserNumber::Unsigned(u)) => {
            let u = *u;
            assert!(!neg);
            assert!(v <= u64::MAX as u128);
            assert_eq!(u as u128, v);
            assert_eq!(idx, len);
        }
        Ok(ParserNumber::Signed(s)) => {
            let s = *s;
            assert!(neg);
            assert!(v >= 1 && v <= (1u128 << 63));
            assert_eq!(-(s as i128), v as i128);
            assert_eq!(idx, len);
        }
        Ok(ParserNumber::Float(f)) => {
            let f = *f;
            if v == 0 {
                assert!(neg);
                assert!(f == 0.0 && f.is_sign_negative());
            } else if neg {
                assert!(v > (1u128 << 63));
            } else {
                assert!(v > u64::MAX as u128);
            }
            assert_eq!(idx, len);
        }
        Err(_) => {
            // only the (cut) float tier may fail, and only for integers that do not fit
            assert!(if neg { v > (1u128 << 63) } else { v > u64::MAX as u128 });
        }
    }
    core::mem::forget(r);
    (v, neg, len)
}

#[kani::proof]
#[kani::unwind(14)]
#[kani::stub(crate::parse_float, parse_float_cut)]
fn u_parse_number_int_len1_12() {
    int_body_small();
}

fn int_body_small() {
    const L: usize = 12;
    let d: [u8; L] = kani::any();
    let len: usize = kani::any();
    kani::assume(len >= 1 && len <= L);
    let mut v: u128 = 0;
    let mut i = 0;
    while i < L {
        if i < len {
            kani::assume(is_digit(d[i]));
            v = v * 10 + (d[i] - b'0') as u128;
        }
        i += 1;
    }
    kani::assume(d[0] != b'0' || len == 1);
    let neg: bool = kani::any();
    let mut idx = 0usize;
    let r = parse_number(&d[..len], &mut idx, neg);
    match &r {
        Ok(ParserNumber::Unsigned(u)) => assert!(!neg && *u as u128 == v && idx == len),
        Ok(ParserNumber::Signed(s)) => assert!(neg && v >= 1 && -(*s as i128) == v as i128 && idx == len),
        Ok(ParserNumber::Float(f)) => assert!(neg && v == 0 && *f == 0.0 && f.is_sign_negative() && idx == len),
        Err(_) => panic!("integer literal of <= 12 digits rejected"),
    }
    kani::cover!(len == L && neg);
    kani::cover!(len == 1 && v == 0 && neg);
}

#[kani::proof]
#[kani::unwind(22)]
#[kani::stub(crate::parse_float, parse_float_cut)]
fn u_parse_number_int_len19() {
    let (v, neg, _) = int_body::<19>(19, 19);
    kani::cover!(neg && v == (1u128 << 63));
    kani::cover!(neg && v == (1u128 << 63) + 1);
    kani::cover!(!neg && v > (1u128 << 63));
}

#[kani::proof]
#[kani::unwind(23)]
#[kani::stub(crate::parse_float, parse_float_cut)]
fn u_parse_number_int_len20() {
    let (v, neg, _) = int_body::<20>(20, 20);
    kani::cover!(!neg && v == u64::MAX as u128);
    kani::cover!(!neg && v == u64::MAX as u128 + 1);
    kani::cover!(neg && v <= u64::MAX as u128);
}

#[kani::proof]
#[kani::unwind(23)]
#[kani::stub(crate::parse_float, parse_float_cut)]
fn u_parse_number_int_len13_20() {
    let (v, neg, len) = int_body::<20>(13, 20);
    kani::cover!(!neg && v == u64::MAX as u128);
    kani::cover!(neg && v == (1u128 << 63));
    kani::cover!(len == 13);
}

/// C02/C07 U-parse_number-grammar: for every byte string of length <= N the fully-parsing
/// number scanner accepts iff the RFC 8259 number grammar (greedy reading) does and stops at the
/// same index as the reference (and therefore as the validating skipper, see u_skip_number_*).
fn grammar_body<const N: usize>() {
    let t: [u8; N] = kani::any();
    let n: usize = kani::any();
    kani::assume(n >= 1 && n <= N);
    kani::assume(t[0] == b'-' || is_digit(t[0]));
    let neg = t[0] == b'-';
    let mut idx = neg as usize;
    let r = parse_number(&t[..n], &mut idx, neg);
    let expect = ref_number_end(&t, n, 0);
    match (&r, expect) {
        (Ok(_), Some(end)) => assert_eq!(idx, end),
        (Err(Error::InvalidNumber), None) => {}
        (Err(Error::FloatMustBeFinite), Some(_)) => {} // cut float tier said "infinite"
        // `0` followed by a digit: the fully-parsing scanner returns the integer 0 and leaves the
        // reader on the next digit, which every caller then rejects (a digit can follow a value
        // in no JSON context: callers accept only whitespace, `,`, `]`, `}` or the end there).
        (Ok(_), None) => {
            let z = neg as usize;
            assert!(t[z] == b'0' && idx == z + 1 && idx < n && is_digit(t[idx]));
        }
        _ => panic!("parse_number: accept/reject differs from the RFC 8259 number grammar"),
    }
    kani::cover!(r.is_ok() && idx == N);
    kani::cover!(matches!(r, Err(Error::InvalidNumber)) && n == N);
    kani::cover!(r.is_ok() && idx < n);
}

#[kani::proof]
#[kani::unwind(9)]
#[kani::stub(crate::parse_float, parse_float_cut)]
fn u_parse_number_grammar_n7() {
    grammar_body::<7>();
}

/// C07 K-exponent: on every buffer of length <= N the exponent scanner never overflows i32,
/// saturates at >= 1000 (in magnitude), honours the sign and stops after the last digit.
#[kani::proof]
#[kani::unwind(10)]
fn k_parse_exponent_n8() {
    const N: usize = 8;
    let t: [u8; N] = kani::any();
    let n: usize = kani::any();
    kani::assume(n <= N);
    let mut idx = 0usize;
    let r = parse_exponent(&t[..n], &mut idx);
    // reference
    let mut j = 0usize;
    let mut neg = false;
    if j < n && (t[j] == b'+' || t[j] == b'-') {
        neg = t[j] == b'-';
        j += 1;
    }
    let start = j;
    let mut exact: i64 = 0;
    while j < n && is_digit(t[j]) {
        if exact < 100_000_000 {
            exact = exact * 10 + (t[j] - b'0') as i64;
        }
        j += 1;
    }
    if j == start {
        assert!(r.is_err());
    } else {
        let e = *r.as_ref().ok().unwrap();
        assert_eq!(idx, j);
        if exact < 1000 {
            assert_eq!(e as i64, if neg { -exact } else { exact });
        } else {
            // saturated: anything >= 1000 in magnitude with the right sign is as good as infinity/zero
            assert!(if neg { e <= -1000 } else { e >= 1000 });
            assert!(e > -100_000 && e < 100_000);
        }
    }
    kani::cover!(r.is_ok() && exact >= 1000 && neg);
    kani::cover!(r.is_ok() && exact < 1000 && idx == N);
}

fn pow10_u128(k: u32) -> u128 {
    let mut p: u128 = 1;
    let mut i = 0;
    while i < k {
        p *= 10;
        i += 1;
    }
    p
}

/// C07 K-fastpath (Clinger): for a fixed exponent E in 0..=22 and every significand below 2^W,
/// parse_float_fast returns the correctly rounded value of sig * 10^E, computed independently in
/// integers (u128 product, one rounding by the int->float conversion).
fn float_fast_mul<const E: i32, const W: u32>() {
    let sig: u64 = kani::any();
    kani::assume(sig < (1u64 << W));
    let got = parse_float_fast(E, sig).unwrap();
    let exact = (sig as u128) * pow10_u128(E as u32);
    let expect = exact as f64;
    assert_eq!(got.to_bits(), expect.to_bits());
    kani::cover!(sig == (1u64 << W) - 1);
}

#[kani::proof]
fn k_float_fast_mul_e1() {
    float_fast_mul::<1, 20>();
}

#[kani::proof]
fn k_float_fast_mul_e10() {
    float_fast_mul::<10, 20>();
}

/// The power-of-ten tables hold exactly 10^i (decides the index arithmetic of both fast tiers
/// and of parse_number_fraction).
#[kani::proof]
fn k_pow10_tables() {
    let i: usize = kani::any();
    kani::assume(i <= 22);
    assert_eq!(POW10_FLOAT[i].to_bits(), (pow10_u128(i as u32) as f64).to_bits());
    if i < 18 {
        assert_eq!(POW10_UINT[i] as u128, pow10_u128(i as u32));
    }
}

/// C07 K-fastpath (negative exponents): the quotient uses exactly 10^-E as divisor; IEEE 754
/// division of two exactly represented operands is correctly rounded by definition, so this is
/// the whole obligation for -22 <= E < 0 (stated assumption: hardware/IEEE division).
fn float_fast_div<const E: i32, const W: u32>() {
    let sig: u64 = kani::any();
    kani::assume(sig < (1u64 << W));
    let got = parse_float_fast(E, sig).unwrap();
    let divisor = pow10_u128((-E) as u32) as f64;
    let expect = (sig as f64) / divisor;
    assert_eq!(got.to_bits(), expect.to_bits());
    kani::cover!(sig == (1u64 << W) - 1);
}

#[kani::proof]
fn k_float_fast_div_e3() {
    float_fast_div::<-3, 16>();
}

#[kani::proof]
fn k_float_fast_div_e10() {
    float_fast_div::<-10, 16>();
}

// ---- big-decimal fallback: the two small kernels that are within reach ------------------------------

/// C01/C07 K-decimal-add: appending a digit never writes outside the 768-byte digit buffer,
/// whatever the current digit count (the count itself keeps growing: "truncated" digits).
#[kani::proof]
fn k_decimal_try_add_digit() {
    let mut d = crate::decimal::Decimal::default();
    let n: usize = kani::any();
    kani::assume(n <= crate::decimal::Decimal::MAX_DIGITS + 4);
    d.num_digits = n;
    let digit: u8 = kani::any();
    kani::assume(digit <= 9);
    d.try_add_digit(digit);
    assert_eq!(d.num_digits, n + 1);
    if n < crate::decimal::Decimal::MAX_DIGITS {
        assert_eq!(d.digits[n], digit);
    }
    kani::cover!(n == crate::decimal::Decimal::MAX_DIGITS);
    kani::cover!(n == crate::decimal::Decimal::MAX_DIGITS - 1);
}

/// C07 K-decimal-round: for every trimmed decimal of at most 6 significant digits and every
/// position of the decimal point, `Decimal::round` is round-half-even of the exact value
/// (a set `truncated` flag means further non-zero digits exist, so a tie is not a tie).
#[kani::proof]
#[kani::unwind(9)]
fn k_decimal_round_6() {
    let mut d = crate::decimal::Decimal::default();
    let w: [u8; 6] = kani::any();
    let nd: usize = kani::any();
    kani::assume(nd <= 6);
    let mut i = 0;
    while i < 6 {
        kani::assume(w[i] <= 9);
        if i < nd {
            d.digits[i] = w[i];
        }
        i += 1;
    }
    // invariant kept by the parser: no trailing zero digit
    kani::assume(nd == 0 || w[nd - 1] != 0);
    d.num_digits = nd;
    let dp: i32 = kani::any();
    kani::assume(dp >= -1 && dp <= 7);
    d.decimal_point = dp;
    d.truncated = kani::any();
    let got = d.round();
    // reference
    let mut n: u64 = 0;
    let mut frac_first: u8 = 0;
    let mut rest_nonzero = d.truncated;
    let mut k = 0;
    while k < 8 {
        let dig = if k < nd { w[k] } else { 0 };
        if (k as i32) < dp {
            n = n * 10 + dig as u64;
        } else if k as i32 == dp {
            frac_first = dig;
        } else if dig != 0 {
            rest_nonzero = true;
        }
        k += 1;
    }
    let expect = if nd == 0 || dp < 0 {
        0
    } else if frac_first > 5 || (frac_first == 5 && (rest_nonzero || n % 2 == 1)) {
        n + 1
    } else {
        n
    };
    assert_eq!(got, expect);
    kani::cover!(frac_first == 5 && !rest_nonzero && n % 2 == 0 && dp > 0 && nd > 0);
    kani::cover!(frac_first == 5 && !rest_nonzero && n % 2 == 1);
    kani::cover!(dp == 7);
}
