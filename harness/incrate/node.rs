//! Harnesses inside `crate::value::node` (packed node metadata).
use super::*;

fn meta_roundtrip(kind: u64, idx: u32, len: u32) {
    let m = Meta::pack_dom_node(kind, idx, len);
    let nm = m.unpack_dom_node();
    assert_eq!(nm.idx, idx);
    assert_eq!(nm.len, len);
    assert_eq!(m.get_kind(), kind);
    assert_eq!(m.get_type(), kind);
    assert!(m.in_shared());
    assert_eq!(m.has_strlen(), kind == Meta::STR_NODE || kind == Meta::RAWNUM_NODE);
    if m.has_strlen() {
        assert_eq!(m.unpack_strlen(), len as usize);
    }
}

fn any_dom_kind() -> u64 {
    let kind: u64 = kani::any();
    kani::assume(kind == Meta::ARR_NODE || kind == Meta::OBJ_NODE || kind == Meta::STR_NODE || kind == Meta::RAWNUM_NODE);
    kind
}

/// C03/C01 K-meta: kind, index-to-header and length survive packing for every len: u32 and every
/// idx < 2^29 (the width of the index field).
#[kani::proof]
fn k_meta_roundtrip_idx_lt_2p29() {
    let kind = any_dom_kind();
    let idx: u32 = kani::any();
    kani::assume(idx < (1u32 << 29));
    let len: u32 = kani::any();
    meta_roundtrip(kind, idx, len);
    kani::cover!(idx == (1u32 << 29) - 1 && len == u32::MAX);
}

/// Known finding F6: the 4 GB input guard admits up to 2^31 nodes, i.e. idx up to 2^31 - 1, but
/// the field has 29 bits. This harness encodes exactly that region and is expected to FAIL on
/// the current tree (reported as KNOWN-FINDING, listed in known_findings.json).
#[kani::proof]
fn k_meta_roundtrip_idx_ge_2p29() {
    let kind = any_dom_kind();
    let idx: u32 = kani::any();
    kani::assume(idx >= (1u32 << 29) && idx < (1u32 << 31));
    let len: u32 = kani::any();
    meta_roundtrip(kind, idx, len);
}

/// C03 K-meta-static: scalar node types keep their type tag apart from the dom kinds.
#[kani::proof]
fn k_meta_static_types() {
    let t: u8 = kani::any();
    kani::assume(t <= 8);
    let typ = (t as u64) << Meta::KIND_BITS;
    let m = Meta::new(typ);
    assert_eq!(m.get_kind(), Meta::STAIC_NODE);
    assert_eq!(m.get_type(), typ);
    assert!(!m.in_shared());
    assert_eq!(m.has_strlen(), typ == Meta::STATIC_STR);
    let len: u32 = kani::any();
    kani::assume(len < u32::MAX);
    let s = Meta::pack_static_str(Meta::STATIC_STR, len as usize);
    assert_eq!(s.get_type(), Meta::STATIC_STR);
    assert_eq!(s.unpack_strlen(), len as usize);
}

/// C03/C16 K-meta-root: the arena pointer tagged into a root node's meta word survives the
/// round trip for every 8-aligned address, and the node is recognised as a root.
#[kani::proof]
fn k_meta_root_tag() {
    let addr: u64 = kani::any();
    kani::assume(addr % 8 == 0);
    let m = Meta::new(addr | Meta::ROOT_NODE);
    assert_eq!(m.get_kind(), Meta::ROOT_NODE);
    assert_eq!(m.unpack_root() as usize as u64, addr);
    assert!(!m.in_shared() || (addr & 7) != 0);
}
