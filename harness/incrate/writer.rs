//! C05 writer-protocol harnesses inside `crate::writer`.
use super::*;
use std::io::Write as _;

/// An inner writer that accepts at most `chunk` bytes per `write` call (short writes).
struct Chunked {
    chunk: usize,
    out: [u8; 16],
    n: usize,
}

impl io::Write for Chunked {
    fn write(&mut self, buf: &[u8]) -> io::Result<usize> {
        let k = if buf.len() < self.chunk { buf.len() } else { self.chunk };
        let mut i = 0;
        while i < k {
            self.out[self.n] = buf[i];
            self.n += 1;
            i += 1;
        }
        Ok(k)
    }
    fn flush(&mut self) -> io::Result<()> {
        Ok(())
    }
}

/// C05 W-buffered: the reserve/commit protocol of `BufferedWriter` delivers every committed byte
/// to the inner writer, in order, even when the inner writer does short writes.
#[kani::proof]
#[kani::unwind(8)]
#[kani::stub(core::fmt::write, crate::verif_kmodels::fmt_write_cut)]
fn w_buffered_writer_short_writes() {
    let chunk: usize = kani::any();
    kani::assume(chunk >= 1 && chunk <= 4);
    let data: [u8; 4] = kani::any();
    let n: usize = kani::any();
    kani::assume(n <= 4);
    let mut w = BufferedWriter::new(Chunked { chunk, out: [0; 16], n: 0 });
    let r0 = w.write_all(b"{");
    assert!(r0.is_ok());
    core::mem::forget(r0);
    {
        let buf = w.reserve_with(8).ok().unwrap();
        let mut i = 0;
        while i < n {
            buf[i] = MaybeUninit::new(data[i]);
            i += 1;
        }
    }
    let r = unsafe { w.flush_len(n) };
    assert!(r.is_ok());
    core::mem::forget(r);
    let r1 = w.write_all(b"}");
    assert!(r1.is_ok());
    core::mem::forget(r1);
    assert_eq!(w.inner.n, n + 2);
    assert_eq!(w.inner.out[0], b'{');
    assert_eq!(w.inner.out[n + 1], b'}');
    let i: usize = kani::any();
    kani::assume(i < n);
    assert_eq!(w.inner.out[1 + i], data[i]);
    kani::cover!(n == 4 && chunk == 1);
    kani::cover!(n == 3 && chunk == 4);
    core::mem::forget(w);
}

/// C05 W-iobufwriter: bytes still pending in an `io::BufWriter` reach the inner writer before
/// space is reserved in it, so committed bytes never overtake them.
#[kani::proof]
#[kani::unwind(8)]
#[kani::stub(core::fmt::write, crate::verif_kmodels::fmt_write_cut)]
fn w_io_bufwriter_order() {
    let a: u8 = kani::any();
    let b: [u8; 2] = kani::any();
    let mut w = IoBufWriter::with_capacity(4, Vec::<u8>::with_capacity(16));
    let r0 = w.write_all(&[a]);
    assert!(r0.is_ok());
    core::mem::forget(r0);
    {
        let buf = w.reserve_with(4).ok().unwrap();
        buf[0] = MaybeUninit::new(b[0]);
        buf[1] = MaybeUninit::new(b[1]);
    }
    let r = unsafe { w.flush_len(2) };
    assert!(r.is_ok());
    core::mem::forget(r);
    let r2 = w.flush();
    assert!(r2.is_ok());
    core::mem::forget(r2);
    let v = w.get_ref();
    assert_eq!(v.len(), 3);
    assert!(v[0] == a && v[1] == b[0] && v[2] == b[1]);
    kani::cover!(a != b[0]);
    core::mem::forget(w);
}
