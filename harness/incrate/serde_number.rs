//! C07 K-number: classification and accessors of `Number` for every value.
use super::*;

#[kani::proof]
fn k_number_classification() {
    let kind: u8 = kani::any();
    kani::assume(kind < 3);
    let u: u64 = kani::any();
    let i: i64 = kani::any();
    kani::assume(i < 0);
    let f = f64::from_bits(kani::any());
    kani::assume(f.is_finite());
    let pn = match kind {
        0 => ParserNumber::Unsigned(u),
        1 => ParserNumber::Signed(i),
        _ => ParserNumber::Float(f),
    };
    let n: Number = pn.into();
    match kind {
        0 => {
            assert!(n.is_u64() && !n.is_f64());
            assert_eq!(n.as_u64(), Some(u));
            assert_eq!(n.is_i64(), u <= i64::MAX as u64);
            assert_eq!(n.as_i64(), if u <= i64::MAX as u64 { Some(u as i64) } else { None });
        }
        1 => {
            assert!(n.is_i64() && !n.is_u64() && !n.is_f64());
            assert_eq!(n.as_i64(), Some(i));
            assert_eq!(n.as_u64(), None);
        }
        _ => {
            assert!(n.is_f64() && !n.is_u64() && !n.is_i64());
            assert_eq!(n.as_f64().map(|x| x.to_bits()), Some(f.to_bits()));
            assert_eq!(n.as_u64(), None);
            assert_eq!(n.as_i64(), None);
        }
    }
    // construction from Rust integers round-trips and classifies by sign
    let a: Number = i.into();
    assert_eq!(a.as_i64(), Some(i));
    assert!(!a.is_u64());
    let j: i64 = kani::any();
    kani::assume(j >= 0);
    let b: Number = j.into();
    assert_eq!(b.as_i64(), Some(j));
    assert_eq!(b.as_u64(), Some(j as u64));
    let c: Number = u.into();
    assert_eq!(c.as_u64(), Some(u));
    // non-finite floats are not numbers
    let g = f64::from_bits(kani::any());
    assert_eq!(Number::from_f64(g).is_some(), g.is_finite());
    kani::cover!(kind == 0 && u > i64::MAX as u64);
    kani::cover!(kind == 2 && f == 0.0 && f.is_sign_negative());
}
