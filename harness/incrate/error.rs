//! Harnesses and cuts living inside `crate::error` (child module: sees the private fields).
use super::*;
use crate::verif_refs::*;

/// Cut of `Error::syntax` used by harnesses whose subject is accept/reject or index
/// arithmetic of a scanner: keeps code and index, drops the rendered snippet.
/// `Error::syntax` itself is the subject of `u_error_syntax_*` below.
pub(crate) fn syntax_cut(code: ErrorCode, json: &[u8], index: usize) -> Error {
    let _ = json;
    Error {
        err: Box::new(ErrorImpl {
            code,
            line: 1,
            column: 0,
            index,
            descript: None,
        }),
    }
}

pub(crate) fn index_of(e: &Error) -> usize {
    e.err.index
}

pub(crate) fn code_is_recursion(e: &Error) -> bool {
    matches!(e.err.code, ErrorCode::RecursionLimitExceeded)
}

pub(crate) fn code_is_eof(e: &Error) -> bool {
    matches!(e.err.code, ErrorCode::EofWhileParsing)
}

pub(crate) fn code_is_not_found(e: &Error) -> bool {
    matches!(
        e.err.code,
        ErrorCode::GetInEmptyObject
            | ErrorCode::GetInEmptyArray
            | ErrorCode::GetIndexOutOfArray
            | ErrorCode::GetUnknownKeyInObject
    )
}

pub(crate) fn cut_from_utf8_lossy(_v: &[u8]) -> std::borrow::Cow<'_, str> {
    std::borrow::Cow::Borrowed("")
}

/// C20/C01 U-error: for every input of length <= N and every index <= len, `Error::syntax`
/// does not panic (slice bounds, `index - start`, `end - (index + 1)`), reports offset == index
/// and exactly the line/column of that offset. Snippet *text* is cut (format / from_utf8_lossy),
/// the window arithmetic is real.
fn error_syntax_body<const N: usize>() {
    let buf: [u8; N] = kani::any();
    let n: usize = kani::any();
    kani::assume(n <= N);
    let index: usize = kani::any();
    kani::assume(index <= n);
    let e = Error::syntax(ErrorCode::InvalidJsonValue, &buf[..n], index);
    let (l, c) = ref_line_col(&buf, n, index);
    assert_eq!(e.offset(), index);
    assert_eq!(e.line(), l);
    assert_eq!(e.column(), c);
    kani::cover!(l > 1 && c > 0);
    kani::cover!(index == n && n == N);
    core::mem::forget(e);
}

#[kani::proof]
#[kani::unwind(8)]
#[kani::stub(alloc::fmt::format, crate::verif_kmodels::fmt_format_cut)]
#[kani::stub(alloc::string::String::from_utf8_lossy, cut_from_utf8_lossy)]
#[kani::stub(str::repeat, cut_repeat)]
fn u_error_syntax_n6() {
    error_syntax_body::<6>();
}

pub(crate) fn cut_repeat(_s: &str, _n: usize) -> String {
    String::new()
}

/// C20: `classify()` yields NotFound only for the four lookup codes (finite enum, exhaustive).
#[kani::proof]
fn u_error_classify() {
    let k: u8 = kani::any();
    let code = match k {
        0 => ErrorCode::EofWhileParsing,
        1 => ErrorCode::ExpectedColon,
        2 => ErrorCode::ExpectedArrayCommaOrEnd,
        3 => ErrorCode::ExpectedObjectCommaOrEnd,
        4 => ErrorCode::InvalidEscape,
        5 => ErrorCode::InvalidJsonValue,
        6 => ErrorCode::InvalidLiteral,
        7 => ErrorCode::InvalidUTF8,
        8 => ErrorCode::InvalidNumber,
        9 => ErrorCode::NumberOutOfRange,
        10 => ErrorCode::InvalidUnicodeCodePoint,
        11 => ErrorCode::ControlCharacterWhileParsingString,
        12 => ErrorCode::TrailingComma,
        13 => ErrorCode::TrailingCharacters,
        14 => ErrorCode::ExpectObjectKeyOrEnd,
        15 => ErrorCode::ExpectedArrayStart,
        16 => ErrorCode::ExpectedObjectStart,
        17 => ErrorCode::InvalidSurrogateUnicodeCodePoint,
        18 => ErrorCode::FloatMustBeFinite,
        19 => ErrorCode::ExpectedQuote,
        20 => ErrorCode::ExpectedNumericKey,
        21 => ErrorCode::RecursionLimitExceeded,
        22 => ErrorCode::UnexpectedVisitType,
        23 => ErrorCode::GetInEmptyObject,
        24 => ErrorCode::GetInEmptyArray,
        25 => ErrorCode::GetIndexOutOfArray,
        _ => ErrorCode::GetUnknownKeyInObject,
    };
    let lookup = k >= 23;
    let e = Error::ser_error(code);
    assert_eq!(e.is_not_found(), lookup);
    assert_eq!(e.classify() == Category::NotFound, lookup);
    kani::cover!(lookup);
    kani::cover!(!lookup);
    core::mem::forget(e);
}
