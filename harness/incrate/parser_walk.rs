//! Modular-step harnesses inside `crate::parser`: value dispatch with the nesting budget, the
//! checked path walkers, the lazy iterator drivers and `Parser::error`.
//!
//! Callees are replaced by *contract models* over precomputed tables (see parser.rs harness
//! module for the rationale); each model is justified by an equivalence harness named in plan.py.
use super::*;
use crate::{reader::Read, verif_refs::*};

type P<'a> = Parser<Read<'a>>;

fn mk<'a>(b: &'a [u8]) -> P<'a> {
    Parser::new(Read::new(b, false))
}

const TN: usize = 12;
/// abstract recogniser for nested values: VAL_END[i] = end of the value starting at i (0 = reject)
static mut VAL_END: [u8; TN] = [0; TN];
static mut VAL_ESC: [bool; TN] = [false; TN];
static mut WS_NEXT: [u8; TN + 1] = [0; TN + 1];
static mut STR_END: [u8; TN + 1] = [0; TN + 1];
static mut STR_ESC: [bool; TN + 1] = [false; TN + 1];
static mut NUM_END: [u8; TN + 1] = [0; TN + 1];
static mut LEN: usize = 0;
static mut CALLS: u8 = 0;
static mut DEPTH_SEEN: u8 = 0;

unsafe fn ws_next(i: usize) -> usize {
    if i >= LEN {
        LEN
    } else {
        WS_NEXT[i] as usize
    }
}

unsafe fn tab(t: &[u8], i: usize) -> Option<usize> {
    if i > LEN || i >= t.len() {
        return None;
    }
    let e = t[i] as usize;
    if e > i && e <= LEN {
        Some(e)
    } else {
        None
    }
}

unsafe fn val_end(b: &[u8], i: usize) -> Option<usize> {
    if i >= LEN || !is_value_start(b[i]) {
        return None;
    }
    tab(&VAL_END, i)
}

unsafe fn setup<const N: usize>(b: &[u8; N], n: usize) {
    LEN = n;
    CALLS = 0;
    let t: [u8; N] = kani::any();
    let e: [bool; N] = kani::any();
    let mut i = 0;
    while i <= N {
        let j = if i < n { i } else { n };
        WS_NEXT[i] = ref_skip_ws(b, n, j) as u8;
        match ref_string_end(b, n, j) {
            Some(end) => {
                STR_END[i] = end as u8;
                STR_ESC[i] = ref_has_backslash(b, j, end);
            }
            None => STR_END[i] = 0,
        }
        NUM_END[i] = if i < n && (b[i] == b'-' || is_digit(b[i])) {
            match ref_number_end(b, n, i) {
                Some(end) => end as u8,
                None => 0,
            }
        } else {
            0
        };
        if i < N {
            VAL_END[i] = t[i];
            VAL_ESC[i] = e[i];
        }
        i += 1;
    }
}

fn cut_err(code: ErrorCode, b: &[u8], i: usize) -> Error {
    crate::error::verif_kani_error::syntax_cut(code, b, i)
}

// ---- contract models -------------------------------------------------------------------------

/// skip_space == first non-whitespace byte (justified by u_skip_space_n6)
fn model_skip_space<'de, R: Reader<'de>>(p: &mut Parser<R>) -> Option<u8> {
    let b = p.read.as_u8_slice();
    let n = b.len();
    let j = unsafe { ws_next(p.read.index()) };
    if j < n {
        p.read.set_index(j + 1);
        Some(b[j])
    } else {
        p.read.set_index(n);
        None
    }
}

/// skip_string == RFC string recogniser (justified by u_skip_string_n8)
fn model_skip_string<'de, R: Reader<'de>>(p: &mut Parser<R>) -> Result<ParseStatus> {
    let b = p.read.as_u8_slice();
    let i = p.read.index();
    match unsafe { tab(&STR_END, i) } {
        Some(e) => {
            p.read.set_index(e);
            Ok(if unsafe { STR_ESC[i] } { ParseStatus::HasEscaped } else { ParseStatus::None })
        }
        None => {
            p.read.set_index(b.len());
            Err(cut_err(InvalidJsonValue, b, i))
        }
    }
}

/// skip_number == RFC number recogniser (justified by u_skip_number_n6); reader is after the first byte
fn model_skip_number<'de, R: Reader<'de>>(p: &mut Parser<R>, _first: u8) -> Result<&'de str> {
    let b = p.read.as_u8_slice();
    let i = p.read.index() - 1;
    match unsafe { tab(&NUM_END, i) } {
        Some(e) => {
            p.read.set_index(e);
            Ok(as_str(p.read.slice_unchecked(i, e)))
        }
        None => Err(cut_err(InvalidNumber, b, i)),
    }
}

/// nested container skipper == abstract recogniser (this *is* the induction hypothesis);
/// reader is just after the opening bracket. Records the nesting budget it observes.
fn model_skip_nested<'de, R: Reader<'de>>(p: &mut Parser<R>) -> Result<()> {
    unsafe {
        CALLS = CALLS.wrapping_add(1);
        DEPTH_SEEN = p.remaining_depth;
    }
    let b = p.read.as_u8_slice();
    let i = p.read.index() - 1;
    match unsafe { val_end(b, i) } {
        Some(e) => {
            p.read.set_index(e);
            Ok(())
        }
        None => Err(cut_err(InvalidJsonValue, b, i)),
    }
}

/// skip_one == skip whitespace + abstract value recogniser
fn model_skip_one<'de, R: Reader<'de>>(p: &mut Parser<R>) -> Result<(&'de [u8], ParseStatus)> {
    unsafe { CALLS = CALLS.wrapping_add(1) };
    let b = p.read.as_u8_slice();
    let n = b.len();
    let i = unsafe { ws_next(p.read.index()) };
    match unsafe { val_end(b, i) } {
        Some(e) => {
            p.read.set_index(e);
            let st = if unsafe { VAL_ESC[i] } { ParseStatus::HasEscaped } else { ParseStatus::None };
            Ok((p.read.slice_unchecked(i, e), st))
        }
        None => {
            p.read.set_index(if i < n { i + 1 } else { n });
            Err(cut_err(InvalidJsonValue, b, i))
        }
    }
}

/// Cut: rendering of a type-mismatch error re-parses the offending value only to describe it;
/// lookups only need "an error that is not a not-found".
fn cut_peek_invalid_type<'de, R: Reader<'de>>(p: &mut Parser<R>, _peek: u8, _exp: &dyn Expected) -> Error {
    cut_err(UnexpectedVisitType, p.read.as_u8_slice(), 0)
}

/// parse_string_raw restricted to escape-free keys (justified by u_parse_string_raw_borrowed_n8);
/// keys with escapes are assumed away in the harnesses that use this model.
fn model_parse_string_raw<'de, 'own, R: Reader<'de>>(
    p: &mut Parser<R>,
    buf: &'own mut Vec<u8>,
) -> Result<ParsedSlice<'de, 'own>> {
    let b = p.read.as_u8_slice();
    let i = p.read.index();
    match unsafe { tab(&STR_END, i) } {
        Some(e) => {
            kani::assume(!unsafe { STR_ESC[i] });
            p.read.set_index(e);
            Ok(ParsedSlice::Borrowed { slice: p.read.slice_unchecked(i, e - 1), buf })
        }
        None => {
            p.read.set_index(b.len());
            Err(cut_err(InvalidJsonValue, b, i))
        }
    }
}

// ---- M-skip_one: dispatch, span, and the nesting budget ---------------------------------------

/// C02/C14/C13/C01: skip_one from every start index: consumes optional whitespace and exactly one
/// value (scalar classes by their recognisers, containers by the induction hypothesis), returns
/// the exact span without surrounding whitespace, the escape status of strings; a nested
/// container is entered with the budget decremented by one and the budget is restored on
/// return; with budget 1 a container is rejected *without* recursing.
#[kani::proof]
#[kani::unwind(9)]
#[kani::stub(crate::error::Error::syntax, crate::error::verif_kani_error::syntax_cut)]
#[kani::stub(Parser::skip_space, model_skip_space)]
#[kani::stub(Parser::skip_string, model_skip_string)]
#[kani::stub(Parser::skip_number, model_skip_number)]
#[kani::stub(Parser::skip_array, model_skip_nested)]
#[kani::stub(Parser::skip_object, model_skip_nested)]
fn m_skip_one_dispatch_n7() {
    const N: usize = 7;
    let buf: [u8; N] = kani::any();
    let n: usize = kani::any();
    kani::assume(n <= N);
    unsafe { setup(&buf, n) };
    let start: usize = kani::any();
    kani::assume(start <= n);
    let d: u8 = kani::any();
    kani::assume(d >= 1);
    let mut p = mk(&buf[..n]);
    p.read.set_index(start);
    p.remaining_depth = d;
    let r = p.skip_one();
    // reference
    let i = unsafe { ws_next(start) };
    let expect: Option<(usize, bool)> = if i >= n {
        None
    } else {
        let c = buf[i];
        if c == b'"' {
            unsafe { tab(&STR_END, i + 1) }.map(|e| (e, unsafe { STR_ESC[i + 1] }))
        } else if c == b'-' || is_digit(c) {
            unsafe { tab(&NUM_END, i) }.map(|e| (e, false))
        } else if c == b't' || c == b'f' || c == b'n' {
            ref_literal_end(&buf, n, i).map(|e| (e, false))
        } else if c == b'[' || c == b'{' {
            if d == 1 {
                None
            } else {
                unsafe { val_end(&buf, i) }.map(|e| (e, false))
            }
        } else {
            None
        }
    };
    match (&r, expect) {
        (Ok((span, st)), Some((e, esc))) => {
            assert_eq!(p.read.index(), e);
            assert_eq!(span.as_ptr(), unsafe { buf.as_ptr().add(i) });
            assert_eq!(span.len(), e - i);
            assert_eq!(*st == ParseStatus::HasEscaped, esc);
        }
        (Err(_), None) => {}
        _ => panic!("skip_one: dispatch differs from the value grammar"),
    }
    // nesting budget
    assert_eq!(p.remaining_depth, d);
    let is_container = i < n && (buf[i] == b'[' || buf[i] == b'{');
    if is_container {
        if d == 1 {
            assert_eq!(unsafe { CALLS }, 0);
            assert!(crate::error::verif_kani_error::code_is_recursion(r.as_ref().err().unwrap()));
        } else {
            assert_eq!(unsafe { CALLS }, 1);
            assert_eq!(unsafe { DEPTH_SEEN }, d - 1);
        }
    } else {
        assert_eq!(unsafe { CALLS }, 0);
    }
    kani::cover!(r.is_ok() && is_container && d == 2);
    kani::cover!(r.is_err() && is_container && d == 1);
    kani::cover!(matches!(&r, Ok((_, ParseStatus::HasEscaped))));
    kani::cover!(r.is_ok() && i > start && buf[i] == b't');
    core::mem::forget(r);
}

// ---- M-get_array_checked ----------------------------------------------------------------------

#[derive(PartialEq, Eq, Clone, Copy)]
enum Look {
    Found(usize, usize),
    NotFound,
    Malformed,
}

/// reference lookup of element `idx` in the array that starts (after whitespace) at 0
unsafe fn ref_array_lookup(b: &[u8], n: usize, idx: usize) -> Look {
    let mut i = ws_next(0);
    if i >= n || b[i] != b'[' {
        return Look::Malformed;
    }
    i = ws_next(i + 1);
    if i >= n {
        return Look::Malformed;
    }
    if b[i] == b']' {
        return Look::NotFound;
    }
    let mut count = idx;
    loop {
        let e = match val_end(b, i) {
            Some(e) => e,
            None => return Look::Malformed,
        };
        if count == 0 {
            return Look::Found(i, e);
        }
        i = ws_next(e);
        if i >= n {
            return Look::Malformed;
        }
        if b[i] == b']' {
            return Look::NotFound;
        }
        if b[i] != b',' {
            return Look::Malformed;
        }
        i = ws_next(i + 1);
        if i >= n {
            return Look::Malformed;
        }
        count -= 1;
    }
}

fn classify<T>(r: &Result<T>) -> u8 {
    match r {
        Ok(_) => 0,
        Err(e) if crate::error::verif_kani_error::code_is_not_found(e) => 1,
        Err(_) => 2,
    }
}

/// C10/C14 M-get_array_checked: index walker + final value skip == reference lookup; every
/// traversed sibling and separator is validated; not-found only for a missing index.
fn get_array_checked_body<const N: usize>() {
    let buf: [u8; N] = kani::any();
    let n: usize = kani::any();
    kani::assume(n <= N);
    unsafe { setup(&buf, n) };
    let idx: usize = kani::any();
    kani::assume(idx <= 3);
    let mut p = mk(&buf[..n]);
    let r = match p.get_from_array_checked(idx) {
        Ok(()) => p.skip_one(),
        Err(e) => Err(e),
    };
    let expect = unsafe { ref_array_lookup(&buf, n, idx) };
    match expect {
        Look::Found(s, e) => {
            let (span, _) = r.as_ref().ok().unwrap();
            assert_eq!(span.as_ptr(), unsafe { buf.as_ptr().add(s) });
            assert_eq!(span.len(), e - s);
        }
        Look::NotFound => assert_eq!(classify(&r), 1),
        Look::Malformed => assert_eq!(classify(&r), 2),
    }
    kani::cover!(matches!(expect, Look::Found(_, _)) && idx == 2);
    kani::cover!(expect == Look::NotFound && idx == 1);
    kani::cover!(expect == Look::Malformed && unsafe { CALLS } >= 1);
    core::mem::forget(r);
}

#[kani::proof]
#[kani::unwind(8)]
#[kani::stub(crate::error::Error::syntax, crate::error::verif_kani_error::syntax_cut)]
#[kani::stub(Parser::skip_space, model_skip_space)]
#[kani::stub(Parser::skip_one, model_skip_one)]
#[kani::stub(Parser::peek_invalid_type, cut_peek_invalid_type)]
fn m_get_array_checked_n6() {
    get_array_checked_body::<6>();
}

#[kani::proof]
#[kani::unwind(9)]
#[kani::stub(crate::error::Error::syntax, crate::error::verif_kani_error::syntax_cut)]
#[kani::stub(Parser::skip_space, model_skip_space)]
#[kani::stub(Parser::skip_one, model_skip_one)]
#[kani::stub(Parser::peek_invalid_type, cut_peek_invalid_type)]
fn m_get_array_checked_n7() {
    get_array_checked_body::<7>();
}

// ---- M-get_object_checked ---------------------------------------------------------------------

/// reference lookup of key (escape-free, <= 2 bytes) in the object starting at 0: first match wins
unsafe fn ref_object_lookup(b: &[u8], n: usize, key: &[u8], klen: usize) -> Look {
    let mut i = ws_next(0);
    if i >= n || b[i] != b'{' {
        return Look::Malformed;
    }
    i = ws_next(i + 1);
    if i >= n {
        return Look::Malformed;
    }
    if b[i] == b'}' {
        return Look::NotFound;
    }
    if b[i] != b'"' {
        return Look::Malformed;
    }
    loop {
        // b[i] == '"'
        let ks = i + 1;
        let ke = match tab(&STR_END, ks) {
            Some(e) => e,
            None => return Look::Malformed,
        };
        let mut same = ke - 1 - ks == klen;
        let mut k = 0;
        while k < klen {
            if same && b[ks + k] != key[k] {
                same = false;
            }
            k += 1;
        }
        i = ws_next(ke);
        if i >= n || b[i] != b':' {
            return Look::Malformed;
        }
        i = ws_next(i + 1);
        let e = match val_end(b, i) {
            Some(e) => e,
            None => return Look::Malformed,
        };
        if same {
            return Look::Found(i, e);
        }
        i = ws_next(e);
        if i >= n {
            return Look::Malformed;
        }
        if b[i] == b'}' {
            return Look::NotFound;
        }
        if b[i] != b',' {
            return Look::Malformed;
        }
        i = ws_next(i + 1);
        if i >= n || b[i] != b'"' {
            return Look::Malformed;
        }
    }
}

/// C10/C14 M-get_object_checked: key walker + final value skip == reference lookup (first
/// duplicate wins; every traversed member validated). Keys are escape-free.
fn get_object_checked_body<const N: usize>() {
    let buf: [u8; N] = kani::any();
    let n: usize = kani::any();
    kani::assume(n <= N);
    unsafe { setup(&buf, n) };
    let key: [u8; 2] = kani::any();
    let klen: usize = kani::any();
    kani::assume(klen <= 2);
    kani::assume(key[0] < 0x80 && key[1] < 0x80);
    let ks = unsafe { from_utf8_unchecked(&key[..klen]) };
    let mut tmp: Vec<u8> = Vec::new();
    let mut p = mk(&buf[..n]);
    let r = match p.get_from_object_checked(ks, &mut tmp) {
        Ok(()) => p.skip_one(),
        Err(e) => Err(e),
    };
    let expect = unsafe { ref_object_lookup(&buf, n, &key, klen) };
    match expect {
        Look::Found(s, e) => {
            let (span, _) = r.as_ref().ok().unwrap();
            assert_eq!(span.as_ptr(), unsafe { buf.as_ptr().add(s) });
            assert_eq!(span.len(), e - s);
        }
        Look::NotFound => assert_eq!(classify(&r), 1),
        Look::Malformed => assert_eq!(classify(&r), 2),
    }
    kani::cover!(matches!(expect, Look::Found(_, _)) && klen == 1);
    kani::cover!(matches!(expect, Look::Found(s, _) if s >= 4));
    kani::cover!(expect == Look::NotFound && n == N);
    core::mem::forget(r);
    core::mem::forget(tmp);
}

#[kani::proof]
#[kani::unwind(10)]
#[kani::stub(crate::error::Error::syntax, crate::error::verif_kani_error::syntax_cut)]
#[kani::stub(Parser::skip_space, model_skip_space)]
#[kani::stub(Parser::skip_one, model_skip_one)]
#[kani::stub(Parser::parse_string_raw, model_parse_string_raw)]
#[kani::stub(Parser::peek_invalid_type, cut_peek_invalid_type)]
fn m_get_object_checked_n8() {
    get_object_checked_body::<8>();
}

#[kani::proof]
#[kani::unwind(9)]
#[kani::stub(crate::error::Error::syntax, crate::error::verif_kani_error::syntax_cut)]
#[kani::stub(Parser::skip_space, model_skip_space)]
#[kani::stub(Parser::skip_one, model_skip_one)]
#[kani::stub(Parser::parse_string_raw, model_parse_string_raw)]
#[kani::stub(Parser::peek_invalid_type, cut_peek_invalid_type)]
fn m_get_object_checked_n7() {
    get_object_checked_body::<7>();
}

#[kani::proof]
#[kani::unwind(8)]
#[kani::stub(crate::error::Error::syntax, crate::error::verif_kani_error::syntax_cut)]
#[kani::stub(Parser::skip_space, model_skip_space)]
#[kani::stub(Parser::skip_one, model_skip_one)]
#[kani::stub(Parser::parse_string_raw, model_parse_string_raw)]
#[kani::stub(Parser::peek_invalid_type, cut_peek_invalid_type)]
fn m_get_object_checked_n6() {
    get_object_checked_body::<6>();
}

#[kani::proof]
#[kani::unwind(11)]
#[kani::stub(crate::error::Error::syntax, crate::error::verif_kani_error::syntax_cut)]
#[kani::stub(Parser::skip_space, model_skip_space)]
#[kani::stub(Parser::skip_one, model_skip_one)]
#[kani::stub(Parser::parse_string_raw, model_parse_string_raw)]
#[kani::stub(Parser::peek_invalid_type, cut_peek_invalid_type)]
fn m_get_object_checked_n9() {
    get_object_checked_body::<9>();
}

// ---- M-array-elem / M-entry (lazy iterator drivers) -------------------------------------------

/// C12/C14 M-array-elem: one step of the lazy array iterator from every (first, position):
/// yields the next element span iff an element introduced by a correct separator follows,
/// None iff `]`, an error otherwise; checked mode (validating element skipper).
#[kani::proof]
#[kani::unwind(9)]
#[kani::stub(crate::error::Error::syntax, crate::error::verif_kani_error::syntax_cut)]
#[kani::stub(Parser::skip_space, model_skip_space)]
#[kani::stub(Parser::skip_one, model_skip_one)]
fn m_array_elem_lazy_n7() {
    const N: usize = 7;
    let buf: [u8; N] = kani::any();
    let n: usize = kani::any();
    kani::assume(n <= N);
    unsafe { setup(&buf, n) };
    let start: usize = kani::any();
    kani::assume(start <= n);
    let first0: bool = kani::any();
    let mut first = first0;
    let mut p = mk(&buf[..n]);
    p.read.set_index(start);
    let r = p.parse_array_elem_lazy(&mut first, true);
    // reference
    let mut i = unsafe { ws_next(start) };
    let mut bad = false;
    if first0 {
        if i >= n || buf[i] != b'[' {
            bad = true;
        } else {
            i = unsafe { ws_next(i + 1) };
        }
    }
    // expected: 0 = error, 1 = end, 2 = element(s, e)
    let mut exp = (0u8, 0usize, 0usize);
    if !bad && i < n {
        if buf[i] == b']' {
            exp = (1, i + 1, 0);
        } else {
            let mut at = i;
            let mut sep_ok = first0;
            if !first0 && buf[i] == b',' {
                at = unsafe { ws_next(i + 1) };
                sep_ok = true;
            }
            if sep_ok {
                if let Some(e) = unsafe { val_end(&buf, at) } {
                    exp = (2, at, e);
                }
            }
        }
    }
    match (&r, exp.0) {
        (Ok(None), 1) => assert_eq!(p.read.index(), exp.1),
        (Ok(Some((span, _))), 2) => {
            assert_eq!(span.as_ptr(), unsafe { buf.as_ptr().add(exp.1) });
            assert_eq!(span.len(), exp.2 - exp.1);
            assert_eq!(p.read.index(), exp.2);
            assert!(!first);
        }
        (Err(_), 0) => {}
        _ => panic!("parse_array_elem_lazy differs from the array iteration grammar"),
    }
    kani::cover!(exp.0 == 2 && !first0);
    kani::cover!(exp.0 == 2 && first0);
    kani::cover!(exp.0 == 1 && !first0);
    kani::cover!(exp.0 == 0 && !first0 && start < n);
    core::mem::forget(r);
}

// ---- U-parser-error ---------------------------------------------------------------------------

/// C20/C01 U-parser-error: whatever the reader index and the recorded error index are,
/// `Parser::error` reports an offset <= len.
#[kani::proof]
#[kani::unwind(8)]
#[kani::stub(crate::error::Error::syntax, crate::error::verif_kani_error::syntax_cut)]
fn u_parser_error_clamp_n6() {
    const N: usize = 6;
    let buf: [u8; N] = kani::any();
    let n: usize = kani::any();
    kani::assume(n <= N);
    let idx: usize = kani::any();
    kani::assume(idx <= n);
    let ei: usize = kani::any();
    let mut p = mk(&buf[..n]);
    p.read.set_index(idx);
    p.error_index = ei;
    let e = p.error(InvalidJsonValue);
    assert!(e.offset() <= n);
    assert!(e.offset() <= idx);
    kani::cover!(n == N && e.offset() == N - 1);
    kani::cover!(ei < idx && e.offset() == ei);
    core::mem::forget(e);
}

/// Same for the padded reader of the in-place DOM parser, whose cursor may run into the 64-byte
/// padding: the reported offset is clamped to the document length and the reason becomes EOF.
#[kani::proof]
#[kani::unwind(8)]
#[kani::stub(crate::error::Error::syntax, crate::error::verif_kani_error::syntax_cut)]
fn u_parser_error_clamp_padded_n6() {
    const N: usize = 6;
    let mut buf: [u8; N + 64] = kani::any();
    let idx: usize = kani::any();
    kani::assume(idx <= N + 64);
    let ei: usize = kani::any();
    let mut p = Parser::new(crate::reader::PaddedSliceRead::new(&mut buf[..]));
    p.read.set_index(idx);
    p.error_index = ei;
    let e = p.error(InvalidJsonValue);
    assert!(e.offset() <= N);
    if idx > N + 1 && ei > N {
        assert!(crate::error::verif_kani_error::code_is_eof(&e));
        assert_eq!(e.offset(), N);
    }
    kani::cover!(idx > N + 1 && ei > N);
    kani::cover!(e.offset() < N);
    core::mem::forget(e);
}

// ---- M-number-visit (raw-number mode of both DOM drivers) -----------------------------------------

struct RawNumProbe {
    ptr: usize,
    len: usize,
    calls: u8,
}

impl<'de> JsonVisitor<'de> for RawNumProbe {
    fn visit_raw_number(&mut self, v: &str) -> bool {
        self.ptr = v.as_ptr() as usize;
        self.len = v.len();
        self.calls += 1;
        true
    }
    fn visit_borrowed_raw_number(&mut self, v: &str) -> bool {
        self.ptr = v.as_ptr() as usize;
        self.len = v.len();
        self.calls += 1;
        true
    }
}

/// C03/C08 M-number-visit: in raw-number mode both DOM drivers (in-place and copying) hand the
/// visitor exactly the source span of the number literal - sign included - iff the literal is
/// a grammatically valid number.
#[kani::proof]
#[kani::unwind(9)]
#[kani::stub(crate::error::Error::syntax, crate::error::verif_kani_error::syntax_cut)]
#[kani::stub(Parser::skip_number, model_skip_number)]
fn m_number_visit_raw_n7() {
    const N: usize = 7;
    let buf: [u8; N] = kani::any();
    let n: usize = kani::any();
    kani::assume(n >= 1 && n <= N);
    unsafe { setup(&buf, n) };
    let start: usize = kani::any();
    kani::assume(start < n);
    let first = buf[start];
    kani::assume(first == b'-' || is_digit(first));
    let inplace: bool = kani::any();
    let mut p = mk(&buf[..n]);
    p.cfg.use_rawnumber = true;
    p.read.set_index(start + 1);
    let mut vis = RawNumProbe { ptr: 0, len: 0, calls: 0 };
    let r = if inplace { p.parse_number_inplace(first, &mut vis) } else { p.parse_number_visit(first, &mut vis) };
    match (&r, unsafe { tab(&NUM_END, start) }) {
        (Ok(()), Some(e)) => {
            assert_eq!(vis.calls, 1);
            assert_eq!(vis.ptr, buf.as_ptr() as usize + start);
            assert_eq!(vis.len, e - start);
            assert_eq!(p.read.index(), e);
        }
        (Err(_), None) => assert_eq!(vis.calls, 0),
        _ => panic!("raw-number capture differs from the number grammar"),
    }
    kani::cover!(r.is_ok() && first == b'-' && !inplace);
    kani::cover!(r.is_ok() && first == b'-' && inplace && start > 0);
    kani::cover!(r.is_err());
    core::mem::forget(r);
}

// ---- M-dom: the DOM drivers (parse_object/parse_array, in-place and copying) -----------------------
//
// Leaves and nested values are contract models that *emit the event the real callee would emit*,
// tagged with the start index of the token, so the harness can compare the whole event stream
// (order, duplicates, counts passed to visit_*_end) with the one the grammar prescribes.

const EV_OBJ_START: u8 = 1;
const EV_OBJ_END: u8 = 2;
const EV_ARR_START: u8 = 3;
const EV_ARR_END: u8 = 4;
const EV_STR: u8 = 5; // arg = index of the first byte after the opening quote
const EV_NUM: u8 = 6; // arg = index of the first byte of the number
const EV_VALUE: u8 = 7; // arg = index of the first byte of a nested value (abstract recogniser E)
const EV_LIT: u8 = 8; // arg = index of the first byte of the literal
const EVN: usize = 12;

struct Rec {
    kind: [u8; EVN],
    arg: [usize; EVN],
    n: usize,
}

impl Rec {
    fn new() -> Self {
        Rec { kind: [0; EVN], arg: [0; EVN], n: 0 }
    }
    fn push(&mut self, k: u8, a: usize) -> bool {
        if self.n < EVN {
            self.kind[self.n] = k;
            self.arg[self.n] = a;
        }
        self.n += 1;
        true
    }
}

impl<'de> JsonVisitor<'de> for Rec {
    fn visit_object_start(&mut self, hint: usize) -> bool {
        self.push(EV_OBJ_START, hint)
    }
    fn visit_object_end(&mut self, len: usize) -> bool {
        self.push(EV_OBJ_END, len)
    }
    fn visit_array_start(&mut self, hint: usize) -> bool {
        self.push(EV_ARR_START, hint)
    }
    fn visit_array_end(&mut self, len: usize) -> bool {
        self.push(EV_ARR_END, len)
    }
    // the contract models below report leaves through these two with the token's start index
    fn visit_u64(&mut self, v: u64) -> bool {
        self.push((v >> 32) as u8, (v & 0xffff_ffff) as usize)
    }
}

fn emit<'de, V: JsonVisitor<'de>>(vis: &mut V, kind: u8, at: usize) -> bool {
    vis.visit_u64(((kind as u64) << 32) | at as u64)
}

/// parse_string_owned / parse_string_inplace: reader just after the opening quote
fn model_parse_string_owned<'de, R: Reader<'de>, V: JsonVisitor<'de>>(
    p: &mut Parser<R>,
    vis: &mut V,
    _strbuf: &mut Vec<u8>,
) -> Result<()> {
    model_string_event(p, vis)
}

fn model_parse_string_inplace<'de, R: Reader<'de>, V: JsonVisitor<'de>>(p: &mut Parser<R>, vis: &mut V) -> Result<()> {
    model_string_event(p, vis)
}

fn model_string_event<'de, R: Reader<'de>, V: JsonVisitor<'de>>(p: &mut Parser<R>, vis: &mut V) -> Result<()> {
    let b = p.read.as_u8_slice();
    let i = p.read.index();
    match unsafe { tab(&STR_END, i) } {
        Some(e) => {
            p.read.set_index(e);
            emit(vis, EV_STR, i);
            Ok(())
        }
        None => {
            p.read.set_index(b.len());
            Err(cut_err(InvalidJsonValue, b, i))
        }
    }
}

/// parse_value / parse_value2: whitespace + abstract value recogniser E
fn model_parse_value<'de, R: Reader<'de>, V: JsonVisitor<'de>>(p: &mut Parser<R>, vis: &mut V) -> Result<()> {
    model_value_event(p, vis)
}

fn model_parse_value2<'de, R: Reader<'de>, V: JsonVisitor<'de>>(
    p: &mut Parser<R>,
    vis: &mut V,
    _strbuf: &mut Vec<u8>,
) -> Result<()> {
    model_value_event(p, vis)
}

fn model_value_event<'de, R: Reader<'de>, V: JsonVisitor<'de>>(p: &mut Parser<R>, vis: &mut V) -> Result<()> {
    let b = p.read.as_u8_slice();
    let n = b.len();
    let i = unsafe { ws_next(p.read.index()) };
    match unsafe { val_end(b, i) } {
        Some(e) => {
            p.read.set_index(e);
            emit(vis, EV_VALUE, i);
            Ok(())
        }
        None => {
            p.read.set_index(if i < n { i + 1 } else { n });
            Err(cut_err(InvalidJsonValue, b, i))
        }
    }
}

/// reference event stream of the rest of an object after `{`
unsafe fn ref_object_events(b: &[u8], n: usize, exp: &mut Rec) -> Option<usize> {
    exp.push(EV_OBJ_START, 0);
    let mut i = ws_next(0);
    if i < n && b[i] == b'}' {
        exp.push(EV_OBJ_END, 0);
        return Some(i + 1);
    }
    let mut count = 0;
    loop {
        if i >= n || b[i] != b'"' {
            return None;
        }
        let ks = i + 1;
        let ke = tab(&STR_END, ks)?;
        exp.push(EV_STR, ks);
        i = ws_next(ke);
        if i >= n || b[i] != b':' {
            return None;
        }
        i = ws_next(i + 1);
        let e = val_end(b, i)?;
        exp.push(EV_VALUE, i);
        count += 1;
        i = ws_next(e);
        if i >= n {
            return None;
        }
        if b[i] == b'}' {
            exp.push(EV_OBJ_END, count);
            return Some(i + 1);
        }
        if b[i] != b',' {
            return None;
        }
        i = ws_next(i + 1);
    }
}

fn dom_object_body<const N: usize>(inplace: bool) {
    let buf: [u8; N] = kani::any();
    let n: usize = kani::any();
    kani::assume(n <= N);
    unsafe { setup(&buf, n) };
    let mut exp = Rec::new();
    let expect = unsafe { ref_object_events(&buf, n, &mut exp) };
    let mut vis = Rec::new();
    let mut p = mk(&buf[..n]);
    let mut strbuf: Vec<u8> = Vec::new();
    let r = if inplace { p.parse_object(&mut vis) } else { p.parse_object2(&mut vis, &mut strbuf) };
    match (&r, expect) {
        (Ok(()), Some(end)) => {
            assert_eq!(p.read.index(), end);
            assert_eq!(vis.n, exp.n);
            assert!(vis.n <= EVN);
            let k: usize = kani::any();
            kani::assume(k < vis.n);
            assert_eq!(vis.kind[k], exp.kind[k]);
            assert_eq!(vis.arg[k], exp.arg[k]);
        }
        (Err(_), None) => {}
        _ => panic!("DOM object driver differs from the object production"),
    }
    kani::cover!(r.is_ok() && vis.n == 4);
    kani::cover!(r.is_ok() && vis.n == 2);
    kani::cover!(r.is_err() && vis.n >= 2);
    core::mem::forget(r);
    core::mem::forget(strbuf);
}

/// C02/C03 M-dom-object (copying driver): accept/reject, stop index and the whole event stream
/// (member order, duplicates, count handed to visit_object_end) equal the object production,
/// for every nested recogniser E.
#[kani::proof]
#[kani::unwind(10)]
#[kani::stub(crate::error::Error::syntax, crate::error::verif_kani_error::syntax_cut)]
#[kani::stub(Parser::skip_space, model_skip_space)]
#[kani::stub(Parser::parse_string_owned, model_parse_string_owned)]
#[kani::stub(Parser::parse_value2, model_parse_value2)]
fn m_dom_object2_n8() {
    dom_object_body::<8>(false);
}

#[kani::proof]
#[kani::unwind(9)]
#[kani::stub(crate::error::Error::syntax, crate::error::verif_kani_error::syntax_cut)]
#[kani::stub(Parser::skip_space, model_skip_space)]
#[kani::stub(Parser::parse_string_owned, model_parse_string_owned)]
#[kani::stub(Parser::parse_value2, model_parse_value2)]
fn m_dom_object2_n7() {
    dom_object_body::<7>(false);
}

#[kani::proof]
#[kani::unwind(8)]
#[kani::stub(crate::error::Error::syntax, crate::error::verif_kani_error::syntax_cut)]
#[kani::stub(Parser::skip_space, model_skip_space)]
#[kani::stub(Parser::parse_string_owned, model_parse_string_owned)]
#[kani::stub(Parser::parse_value2, model_parse_value2)]
fn m_dom_object2_n6() {
    dom_object_body::<6>(false);
}

/// C02/C03 M-dom-object (in-place driver)
#[kani::proof]
#[kani::unwind(10)]
#[kani::stub(crate::error::Error::syntax, crate::error::verif_kani_error::syntax_cut)]
#[kani::stub(Parser::skip_space, model_skip_space)]
#[kani::stub(Parser::parse_string_inplace, model_parse_string_inplace)]
#[kani::stub(Parser::parse_value, model_parse_value)]
fn m_dom_object_n8() {
    dom_object_body::<8>(true);
}

#[kani::proof]
#[kani::unwind(9)]
#[kani::stub(crate::error::Error::syntax, crate::error::verif_kani_error::syntax_cut)]
#[kani::stub(Parser::skip_space, model_skip_space)]
#[kani::stub(Parser::parse_string_inplace, model_parse_string_inplace)]
#[kani::stub(Parser::parse_value, model_parse_value)]
fn m_dom_object_n7() {
    dom_object_body::<7>(true);
}

#[kani::proof]
#[kani::unwind(8)]
#[kani::stub(crate::error::Error::syntax, crate::error::verif_kani_error::syntax_cut)]
#[kani::stub(Parser::skip_space, model_skip_space)]
#[kani::stub(Parser::parse_string_inplace, model_parse_string_inplace)]
#[kani::stub(Parser::parse_value, model_parse_value)]
fn m_dom_object_n6() {
    dom_object_body::<6>(true);
}

fn model_parse_number_visit<'de, R: Reader<'de>, V: JsonVisitor<'de>>(p: &mut Parser<R>, _first: u8, vis: &mut V) -> Result<()> {
    let b = p.read.as_u8_slice();
    let i = p.read.index() - 1;
    match unsafe { tab(&NUM_END, i) } {
        Some(e) => {
            p.read.set_index(e);
            emit(vis, EV_NUM, i);
            Ok(())
        }
        None => Err(cut_err(InvalidNumber, b, i)),
    }
}

fn model_parse_literal_visit<'de, R: Reader<'de>, V: JsonVisitor<'de>>(p: &mut Parser<R>, _first: u8, vis: &mut V) -> Result<()> {
    let b = p.read.as_u8_slice();
    let n = b.len();
    let i = p.read.index() - 1;
    match ref_literal_end(b, n, i) {
        Some(e) => {
            p.read.set_index(e);
            emit(vis, EV_LIT, i);
            Ok(())
        }
        None => Err(cut_err(InvalidLiteral, b, i)),
    }
}

/// nested object inside an array: reader just after `{`
fn model_parse_nested_obj<'de, R: Reader<'de>, V: JsonVisitor<'de>>(p: &mut Parser<R>, vis: &mut V) -> Result<()> {
    let b = p.read.as_u8_slice();
    let i = p.read.index() - 1;
    match unsafe { val_end(b, i) } {
        Some(e) => {
            p.read.set_index(e);
            emit(vis, EV_VALUE, i);
            Ok(())
        }
        None => Err(cut_err(InvalidJsonValue, b, i)),
    }
}

fn model_parse_nested_obj2<'de, R: Reader<'de>, V: JsonVisitor<'de>>(
    p: &mut Parser<R>,
    vis: &mut V,
    _strbuf: &mut Vec<u8>,
) -> Result<()> {
    model_parse_nested_obj(p, vis)
}

/// reference event stream of the rest of an array after `[` (no nested '[' in the buffer)
unsafe fn ref_array_events(b: &[u8], n: usize, exp: &mut Rec) -> Option<usize> {
    exp.push(EV_ARR_START, 0);
    let mut i = ws_next(0);
    if i < n && b[i] == b']' {
        exp.push(EV_ARR_END, 0);
        return Some(i + 1);
    }
    let mut count = 0;
    loop {
        if i >= n {
            return None;
        }
        let c = b[i];
        let e = if c == b'-' || is_digit(c) {
            exp.push(EV_NUM, i);
            tab(&NUM_END, i)?
        } else if c == b'"' {
            exp.push(EV_STR, i + 1);
            tab(&STR_END, i + 1)?
        } else if c == b'{' {
            exp.push(EV_VALUE, i);
            val_end(b, i)?
        } else {
            exp.push(EV_LIT, i);
            ref_literal_end(b, n, i)?
        };
        count += 1;
        i = ws_next(e);
        if i >= n {
            return None;
        }
        if b[i] == b']' {
            exp.push(EV_ARR_END, count);
            return Some(i + 1);
        }
        if b[i] != b',' {
            return None;
        }
        i = ws_next(i + 1);
    }
}

fn dom_array_body<const N: usize>(inplace: bool) {
    let buf: [u8; N] = kani::any();
    let n: usize = kani::any();
    kani::assume(n <= N);
    // directly nested arrays are excluded: the `[` arm is textually the `{` arm with the callee
    // exchanged, and taking it would recurse into the function under test
    let mut k = 0;
    while k < N {
        kani::assume(buf[k] != b'[');
        k += 1;
    }
    unsafe { setup(&buf, n) };
    let mut exp = Rec::new();
    let expect = unsafe { ref_array_events(&buf, n, &mut exp) };
    let mut vis = Rec::new();
    let mut p = mk(&buf[..n]);
    let mut strbuf: Vec<u8> = Vec::new();
    let r = if inplace { p.parse_array(&mut vis) } else { p.parse_array2(&mut vis, &mut strbuf) };
    match (&r, expect) {
        (Ok(()), Some(end)) => {
            assert_eq!(p.read.index(), end);
            assert_eq!(vis.n, exp.n);
            assert!(vis.n <= EVN);
            let k: usize = kani::any();
            kani::assume(k < vis.n);
            assert_eq!(vis.kind[k], exp.kind[k]);
            assert_eq!(vis.arg[k], exp.arg[k]);
        }
        (Err(_), None) => {}
        _ => panic!("DOM array driver differs from the array production"),
    }
    kani::cover!(r.is_ok() && vis.n == 5);
    kani::cover!(r.is_ok() && vis.n == 2);
    kani::cover!(r.is_ok() && vis.n == 3 && vis.kind[1] == EV_VALUE);
    kani::cover!(r.is_err() && vis.n >= 2);
    core::mem::forget(r);
    core::mem::forget(strbuf);
}

/// C02/C03 M-dom-array (copying driver)
#[kani::proof]
#[kani::unwind(4)]
#[kani::stub(crate::error::Error::syntax, crate::error::verif_kani_error::syntax_cut)]
#[kani::stub(Parser::skip_space, model_skip_space)]
#[kani::stub(Parser::parse_string_owned, model_parse_string_owned)]
#[kani::stub(Parser::parse_number_visit, model_parse_number_visit)]
#[kani::stub(Parser::parse_literal_visit, model_parse_literal_visit)]
#[kani::stub(Parser::parse_object2, model_parse_nested_obj2)]
fn m_dom_array2_n7() {
    dom_array_body::<7>(false);
}

/// C02/C03 M-dom-array (in-place driver)
#[kani::proof]
#[kani::unwind(4)]
#[kani::stub(crate::error::Error::syntax, crate::error::verif_kani_error::syntax_cut)]
#[kani::stub(Parser::skip_space, model_skip_space)]
#[kani::stub(Parser::parse_string_inplace, model_parse_string_inplace)]
#[kani::stub(Parser::parse_number_inplace, model_parse_number_visit)]
#[kani::stub(Parser::parse_literal_visit, model_parse_literal_visit)]
#[kani::stub(Parser::parse_object, model_parse_nested_obj)]
fn m_dom_array_n7() {
    dom_array_body::<7>(true);
}

// ---- M-entry: one step of the lazy object iterator driver -----------------------------------------

/// parse_str restricted to escape-free keys: borrowed span (justified by
/// u_parse_string_raw_borrowed_n8); keys with escapes are assumed away.
fn model_parse_str<'de, 'own, R: Reader<'de>>(
    p: &mut Parser<R>,
    _buf: &'own mut Vec<u8>,
) -> Result<Reference<'de, 'own, str>> {
    let b = p.read.as_u8_slice();
    let i = p.read.index();
    match unsafe { tab(&STR_END, i) } {
        Some(e) => {
            kani::assume(!unsafe { STR_ESC[i] });
            p.read.set_index(e);
            Ok(Reference::Borrowed(as_str(p.read.slice_unchecked(i, e - 1))))
        }
        None => {
            p.read.set_index(b.len());
            Err(cut_err(InvalidJsonValue, b, i))
        }
    }
}

/// C12/C14 M-entry: one step of the lazy object iterator from every (first, position): yields
/// the next member (key span, value span) iff a member introduced by a correct separator
/// follows, None iff `}`, an error otherwise; checked mode.
fn entry_lazy_body<const N: usize>() {
    let buf: [u8; N] = kani::any();
    let n: usize = kani::any();
    kani::assume(n <= N);
    unsafe { setup(&buf, n) };
    let start: usize = kani::any();
    kani::assume(start <= n);
    let first0: bool = kani::any();
    let mut first = first0;
    let mut strbuf: Vec<u8> = Vec::new();
    let mut p = mk(&buf[..n]);
    p.read.set_index(start);
    let r = p.parse_entry_lazy(&mut strbuf, &mut first, true);
    // reference: 0 = error, 1 = end (reader after '}'), 2 = member (key start/end, value start/end)
    let mut exp = (0u8, 0usize, 0usize, 0usize, 0usize);
    let mut i = unsafe { ws_next(start) };
    let mut bad = false;
    if first0 {
        if i >= n || buf[i] != b'{' {
            bad = true;
        } else {
            i = unsafe { ws_next(i + 1) };
        }
    }
    if !bad && i < n {
        if buf[i] == b'}' {
            exp = (1, i + 1, 0, 0, 0);
        } else {
            let mut at = i;
            let mut sep_ok = first0;
            if !first0 && buf[i] == b',' {
                at = unsafe { ws_next(i + 1) };
                sep_ok = true;
            }
            if sep_ok && at < n && buf[at] == b'"' {
                if let Some(ke) = unsafe { tab(&STR_END, at + 1) } {
                    let c = unsafe { ws_next(ke) };
                    if c < n && buf[c] == b':' {
                        let vs = unsafe { ws_next(c + 1) };
                        if let Some(ve) = unsafe { val_end(&buf, vs) } {
                            exp = (2, at + 1, ke - 1, vs, ve);
                        }
                    }
                }
            }
        }
    }
    match (&r, exp.0) {
        (Ok(None), 1) => assert_eq!(p.read.index(), exp.1),
        (Ok(Some(pair)), 2) => {
            assert_eq!(pair.key.as_ptr(), unsafe { buf.as_ptr().add(exp.1) });
            assert_eq!(pair.key.len(), exp.2 - exp.1);
            assert_eq!(pair.val.as_ptr(), unsafe { buf.as_ptr().add(exp.3) });
            assert_eq!(pair.val.len(), exp.4 - exp.3);
            assert_eq!(p.read.index(), exp.4);
            assert!(!first);
        }
        (Err(_), 0) => {}
        _ => panic!("parse_entry_lazy differs from the object iteration grammar"),
    }
    kani::cover!(exp.0 == 2 && !first0);
    kani::cover!(exp.0 == 2 && first0);
    kani::cover!(exp.0 == 1 && !first0);
    kani::cover!(exp.0 == 0 && !first0 && start < n);
    core::mem::forget(r);
    core::mem::forget(strbuf);
}

#[kani::proof]
#[kani::unwind(9)]
#[kani::stub(crate::error::Error::syntax, crate::error::verif_kani_error::syntax_cut)]
#[kani::stub(Parser::skip_space, model_skip_space)]
#[kani::stub(Parser::skip_one, model_skip_one)]
#[kani::stub(Parser::parse_str, model_parse_str)]
fn m_entry_lazy_n7() {
    entry_lazy_body::<7>();
}

#[kani::proof]
#[kani::unwind(11)]
#[kani::stub(crate::error::Error::syntax, crate::error::verif_kani_error::syntax_cut)]
#[kani::stub(Parser::skip_space, model_skip_space)]
#[kani::stub(Parser::skip_one, model_skip_one)]
#[kani::stub(Parser::parse_str, model_parse_str)]
fn m_entry_lazy_n9() {
    entry_lazy_body::<9>();
}

// ---- M-get (unchecked walkers): well-formed input, concrete grammar -------------------------------

static mut FULL_END: [u8; TN + 1] = [0; TN + 1]; // ref_value_end at each position (0 = none)
static mut TOK_A: u8 = 0;
static mut TOK_B: u8 = 0;

unsafe fn setup_full<const N: usize>(b: &[u8; N], n: usize) {
    let mut i = 0;
    while i <= N {
        FULL_END[i] = if i < n && is_value_start(b[i]) {
            match ref_value_end(b, n, i) {
                Some(e) => e as u8,
                None => 0,
            }
        } else {
            0
        };
        i += 1;
    }
}

/// skip_container == end of the well-formed container whose opening bracket was just consumed
/// (justified by u_skip_container_tail_n8 / k_block_step_*)
fn model_skip_container<'de, R: Reader<'de>>(p: &mut Parser<R>, _left: u8, _right: u8) -> Result<()> {
    let b = p.read.as_u8_slice();
    let i = p.read.index() - 1;
    match unsafe { tab(&FULL_END, i) } {
        Some(e) => {
            p.read.set_index(e);
            Ok(())
        }
        None => Err(cut_err(EofWhileParsing, b, i)),
    }
}

/// skip_string_unchecked(2) == end of the well-formed literal (justified by u_skip_string_unchecked_n8, b_*)
unsafe fn model_skip_string_unchecked2<'de, R: Reader<'de>>(p: &mut Parser<R>) -> Result<()> {
    let b = p.read.as_u8_slice();
    let i = p.read.index();
    match tab(&STR_END, i) {
        Some(e) => {
            p.read.set_index(e);
            Ok(())
        }
        None => Err(cut_err(EofWhileParsing, b, i)),
    }
}

unsafe fn model_skip_string_unchecked<'de, R: Reader<'de>>(p: &mut Parser<R>) -> Result<ParseStatus> {
    let b = p.read.as_u8_slice();
    let i = p.read.index();
    match tab(&STR_END, i) {
        Some(e) => {
            p.read.set_index(e);
            Ok(if STR_ESC[i] { ParseStatus::HasEscaped } else { ParseStatus::None })
        }
        None => Err(cut_err(EofWhileParsing, b, i)),
    }
}

/// get_next_token == first occurrence of one of the two tokens (justified by u_get_next_token_n6);
/// the token pair is fixed per walker and recorded by the harness.
fn model_get_next_token<'de, R: Reader<'de>, const N: usize>(p: &mut Parser<R>, _tokens: [u8; N], advance: usize) -> Option<u8> {
    let b = p.read.as_u8_slice();
    let n = b.len();
    let mut j = p.read.index();
    let (ta, tb) = unsafe { (TOK_A, TOK_B) };
    while j < n && b[j] != ta && b[j] != tb {
        j += 1;
    }
    if j < n {
        p.read.set_index(j + advance);
        Some(b[j])
    } else {
        p.read.set_index(n);
        None
    }
}

/// skip_one on well-formed input == whitespace + the full value grammar
fn model_skip_one_full<'de, R: Reader<'de>>(p: &mut Parser<R>) -> Result<(&'de [u8], ParseStatus)> {
    let b = p.read.as_u8_slice();
    let n = b.len();
    let i = unsafe { ws_next(p.read.index()) };
    match unsafe { tab(&FULL_END, i) } {
        Some(e) => {
            p.read.set_index(e);
            Ok((p.read.slice_unchecked(i, e), ParseStatus::None))
        }
        None => {
            p.read.set_index(if i < n { i + 1 } else { n });
            Err(cut_err(InvalidJsonValue, b, i))
        }
    }
}

/// C10 M-get_array (unchecked): on every well-formed document <= N bytes whose value is an array,
/// the trusting index walker + final skip returns exactly the source span of element `idx`
/// (the same answer as the checked walker / a full parse), and fails when the index is missing.
#[kani::proof]
#[kani::unwind(12)]
#[kani::stub(crate::error::Error::syntax, crate::error::verif_kani_error::syntax_cut)]
#[kani::stub(Parser::skip_space, model_skip_space)]
#[kani::stub(Parser::skip_container, model_skip_container)]
#[kani::stub(Parser::skip_string_unchecked2, model_skip_string_unchecked2)]
#[kani::stub(Parser::get_next_token, model_get_next_token)]
#[kani::stub(Parser::skip_one, model_skip_one_full)]
#[kani::stub(Parser::peek_invalid_type, cut_peek_invalid_type)]
fn m_get_array_unchecked_n8() {
    const N: usize = 8;
    let buf: [u8; N] = kani::any();
    let n: usize = kani::any();
    kani::assume(n <= N);
    // precondition of the unchecked API: a well-formed JSON text
    kani::assume(ref_is_json_text(&buf, n));
    unsafe {
        setup(&buf, n);
        setup_full(&buf, n);
        TOK_A = b']';
        TOK_B = b',';
    }
    let s0 = unsafe { ws_next(0) };
    kani::assume(buf[s0] == b'[');
    let idx: usize = kani::any();
    kani::assume(idx <= 2);
    // reference: walk the elements with the full grammar
    let mut i = unsafe { ws_next(s0 + 1) };
    let mut found: Option<(usize, usize)> = None;
    if buf[i] != b']' {
        let mut k = 0;
        loop {
            let e = unsafe { tab(&FULL_END, i) }.unwrap();
            if k == idx {
                found = Some((i, e));
                break;
            }
            i = unsafe { ws_next(e) };
            if buf[i] == b']' {
                break;
            }
            i = unsafe { ws_next(i + 1) };
            k += 1;
        }
    }
    let mut p = mk(&buf[..n]);
    let r = match p.get_from_array(idx) {
        Ok(()) => p.skip_one(),
        Err(e) => Err(e),
    };
    match found {
        Some((s, e)) => {
            let (span, _) = r.as_ref().ok().unwrap();
            assert_eq!(span.as_ptr(), unsafe { buf.as_ptr().add(s) });
            assert_eq!(span.len(), e - s);
        }
        None => assert!(r.is_err()),
    }
    kani::cover!(matches!(found, Some((s, _)) if s >= 4) && idx == 1);
    kani::cover!(found.is_none() && idx == 1);
    kani::cover!(found.is_some() && idx == 2);
    core::mem::forget(r);
}

/// C10 M-get_object (unchecked): on every well-formed document <= N bytes whose value is an object
/// (escape-free keys), the trusting key walker + final skip returns exactly the source span of
/// the first member with that key, and fails when the key is missing.
#[kani::proof]
#[kani::unwind(12)]
#[kani::stub(crate::error::Error::syntax, crate::error::verif_kani_error::syntax_cut)]
#[kani::stub(Parser::skip_space, model_skip_space)]
#[kani::stub(Parser::skip_container, model_skip_container)]
#[kani::stub(Parser::skip_string_unchecked, model_skip_string_unchecked)]
#[kani::stub(Parser::get_next_token, model_get_next_token)]
#[kani::stub(Parser::parse_string_raw, model_parse_string_raw)]
#[kani::stub(Parser::skip_one, model_skip_one_full)]
#[kani::stub(Parser::peek_invalid_type, cut_peek_invalid_type)]
fn m_get_object_unchecked_n9() {
    const N: usize = 9;
    let buf: [u8; N] = kani::any();
    let n: usize = kani::any();
    kani::assume(n <= N);
    kani::assume(ref_is_json_text(&buf, n));
    unsafe {
        setup(&buf, n);
        setup_full(&buf, n);
        TOK_A = b'"';
        TOK_B = b'}';
    }
    let s0 = unsafe { ws_next(0) };
    kani::assume(buf[s0] == b'{');
    let key: [u8; 1] = kani::any();
    let klen: usize = kani::any();
    kani::assume(klen <= 1 && key[0] < 0x80);
    // reference: walk the members with the full grammar; first match wins
    let mut i = unsafe { ws_next(s0 + 1) };
    let mut found: Option<(usize, usize)> = None;
    if buf[i] != b'}' {
        loop {
            let ks = i + 1;
            let ke = unsafe { tab(&STR_END, ks) }.unwrap();
            let same = ke - 1 - ks == klen && (klen == 0 || buf[ks] == key[0]);
            let c = unsafe { ws_next(ke) };
            let vs = unsafe { ws_next(c + 1) };
            let ve = unsafe { tab(&FULL_END, vs) }.unwrap();
            if same {
                found = Some((vs, ve));
                break;
            }
            i = unsafe { ws_next(ve) };
            if buf[i] == b'}' {
                break;
            }
            i = unsafe { ws_next(i + 1) };
        }
    }
    let ks = unsafe { from_utf8_unchecked(&key[..klen]) };
    let mut tmp: Vec<u8> = Vec::new();
    let mut p = mk(&buf[..n]);
    let r = match p.get_from_object(ks, &mut tmp) {
        Ok(()) => p.skip_one(),
        Err(e) => Err(e),
    };
    match found {
        Some((s, e)) => {
            let (span, _) = r.as_ref().ok().unwrap();
            assert_eq!(span.as_ptr(), unsafe { buf.as_ptr().add(s) });
            assert_eq!(span.len(), e - s);
        }
        None => assert!(r.is_err()),
    }
    kani::cover!(matches!(found, Some((s, _)) if s >= 6));
    kani::cover!(found.is_none() && n == N);
    kani::cover!(matches!(found, Some((s, e)) if e - s >= 3));
    core::mem::forget(r);
    core::mem::forget(tmp);
}

// ---- padded reader (in-place DOM parse) -----------------------------------------------------------

fn padded<const N: usize, const M: usize>(doc: &[u8; N]) -> [u8; M] {
    // what Value::parse_with_padding builds: the document followed by `x"x` and zeros (64 bytes)
    let mut b = [0u8; M];
    let mut i = 0;
    while i < N {
        b[i] = doc[i];
        i += 1;
    }
    b[N] = b'x';
    b[N + 1] = b'"';
    b[N + 2] = b'x';
    b
}

/// C02/C01 U-trailing (padded reader): after the DOM parser consumed a value ending at `start`,
/// `parse_trailing` accepts iff only whitespace lies between `start` and the end of the document
/// - the `x"x` sentinel that begins exactly at `len` must stop the whitespace skipper and must
/// not be reported as trailing characters - and reports EOF if the cursor already ran into the
/// padding.
#[kani::proof]
#[kani::unwind(4)]
#[kani::stub(crate::error::Error::syntax, crate::error::verif_kani_error::syntax_cut)]
fn u_parse_trailing_padded_n6() {
    const N: usize = 6;
    const M: usize = N + 64;
    let doc: [u8; N] = kani::any();
    let mut buf = padded::<N, M>(&doc);
    let start: usize = kani::any();
    kani::assume(start <= N + 2);
    let mut p = Parser::new(crate::reader::PaddedSliceRead::new(&mut buf[..]));
    p.read.set_index(start);
    let r = p.parse_trailing();
    let only_ws = start <= N && ref_skip_ws(&doc, N, start) == N;
    assert_eq!(r.is_ok(), only_ws);
    kani::cover!(r.is_ok() && start < N);
    kani::cover!(r.is_err() && start > N);
    kani::cover!(r.is_err() && start < N);
    core::mem::forget(r);
}

/// C01 K-padded-reader: cursor arithmetic of the unchecked padded reader (index, remain, at,
/// peek, next_n, backward) for every cursor position inside the padded buffer.
#[kani::proof]
#[kani::unwind(4)]
fn k_padded_reader_ops() {
    const N: usize = 6;
    const M: usize = N + 64;
    let doc: [u8; N] = kani::any();
    let mut buf = padded::<N, M>(&doc);
    let snapshot = buf;
    let idx: usize = kani::any();
    kani::assume(idx <= M - 4);
    let mut r = crate::reader::PaddedSliceRead::new(&mut buf[..]);
    r.set_index(idx);
    assert_eq!(r.index(), idx);
    assert_eq!(r.remain(), if idx <= N { N - idx } else { 0 });
    assert_eq!(r.as_u8_slice().len(), N);
    assert_eq!(r.peek(), Some(snapshot[idx]));
    assert_eq!(r.at(idx), snapshot[idx]);
    let two = r.next_n(2).unwrap();
    assert!(two[0] == snapshot[idx] && two[1] == snapshot[idx + 1]);
    assert_eq!(r.index(), idx + 2);
    r.backward(1);
    assert_eq!(r.index(), idx + 1);
    r.eat(2);
    assert_eq!(r.index(), idx + 3);
    let s = r.slice_unchecked(idx, idx + 3);
    assert!(s.len() == 3 && s[2] == snapshot[idx + 2]);
    kani::cover!(idx > N);
    kani::cover!(idx == 0);
}
