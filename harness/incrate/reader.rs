//! Harness helpers and kernels inside `crate::reader`.
use super::*;
use crate::verif_refs::*;

/// A bounds-checked reader whose deferred UTF-8 verdict is chosen by the harness
/// (`usize::MAX` = valid): stands for "simdutf8 found the first invalid byte at `pos`".
pub(crate) fn read_with_utf8_verdict<'a>(slice: &'a [u8], pos: usize) -> Read<'a> {
    let mut r = Read::new(slice, false);
    r.next_invalid_utf8 = pos;
    r
}

/// C20 K-position: line/column of every index in every buffer <= N equal the documented
/// definition (1-based line, column = bytes since the last newline).
#[kani::proof]
#[kani::unwind(10)]
fn k_position_from_index_n8() {
    const N: usize = 8;
    let buf: [u8; N] = kani::any();
    let n: usize = kani::any();
    kani::assume(n <= N);
    let i: usize = kani::any();
    let p = Position::from_index(i, &buf[..n]);
    let (l, c) = ref_line_col(&buf, n, i);
    assert_eq!(p.line, l);
    assert_eq!(p.column, c);
    kani::cover!(l == 3 && c == 2);
    kani::cover!(i > n);
}

/// C02/C20 U-utf8-defer: a reader that carries an invalid-UTF-8 verdict reports it from
/// `check_utf8_final` (which every error path and `from_trait` consult) with the offset of the
/// first invalid byte; a valid one reports nothing.
#[kani::proof]
#[kani::unwind(8)]
#[kani::stub(crate::error::Error::syntax, crate::error::verif_kani_error::syntax_cut)]
fn u_utf8_deferred_verdict_n6() {
    const N: usize = 6;
    let buf: [u8; N] = kani::any();
    let n: usize = kani::any();
    kani::assume(n <= N);
    let bad: bool = kani::any();
    let pos: usize = kani::any();
    kani::assume(pos < n);
    let r = read_with_utf8_verdict(&buf[..n], if bad { pos } else { usize::MAX });
    let v = r.check_utf8_final();
    assert_eq!(v.is_err(), bad);
    if let Err(e) = &v {
        assert_eq!(e.offset(), pos);
    }
    assert_eq!(r.next_invalid_utf8(), if bad { pos } else { usize::MAX });
    kani::cover!(bad);
    kani::cover!(!bad && n == N);
    core::mem::forget(v);
}

/// C01/C12/C13 U-read-faststr: whatever a reader over `&'de FastStr` hands out for `'de`
/// (`Read::slice`, from which the borrowed keys of `to_object_iter(&FastStr)` and the borrowed
/// `&'de str` of the typed deserializer are cut) is still readable, with the caller's bytes in
/// it, after the reader itself is gone - for the inlined (two symbolic bytes), the
/// `Arc<String>` and the static representation of FastStr (Kani's pointer checks flag a read
/// from a freed box).
fn read_faststr_body(f: faststr::FastStr) {
    let handed_out: &[u8] = {
        let r = Read::from(&f);
        r.slice()
    };
    assert_eq!(handed_out.len(), f.len());
    let i: usize = kani::any();
    kani::assume(i < handed_out.len());
    let b = handed_out[i];
    assert_eq!(b, f.as_bytes()[i]);
    kani::cover!(i == 1);
    core::mem::forget(f);
}

#[kani::proof]
#[kani::unwind(6)]
fn u_read_from_faststr_outlives_reader() {
    let raw: [u8; 2] = kani::any();
    kani::assume(raw[0] < 0x80 && raw[1] < 0x80);
    let s = unsafe { core::str::from_utf8_unchecked(&raw[..]) };
    read_faststr_body(faststr::FastStr::new(s));
}

#[kani::proof]
#[kani::unwind(6)]
fn u_read_from_faststr_shared_outlives_reader() {
    let arc: bool = kani::any();
    // 28 bytes: longer than the 24 an inlined FastStr holds, so this one really is an Arc<String>
    let f = if arc { faststr::FastStr::from_string(String::from("[1,2,3,4,5,6,7,8,9,10,11,12]")) } else { faststr::FastStr::from_static_str("[1]") };
    read_faststr_body(f);
}
