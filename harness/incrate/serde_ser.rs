//! C05/C08 harnesses inside `crate::serde::ser`: non-finite floats, the Compound comma/colon
//! state machine (compact and pretty), a failing writer.
use super::*;
use serde::ser::{SerializeMap, SerializeSeq, Serializer as _};

fn cut_format_finite<F: ryu::Float>(_b: &mut ryu::Buffer, _f: F) -> &str {
    "1.5"
}

/// C05/C08 K-float-null: for every f64 / f32 bit pattern the serializer writes `null` iff the
/// value is NaN or infinite and otherwise hands the value to the digit generator (ryu, cut).
#[kani::proof]
#[kani::unwind(8)]
#[kani::stub(ryu::Buffer::format_finite, cut_format_finite)]
fn k_float_nonfinite_null() {
    let wide: bool = kani::any();
    let mut out: Vec<u8> = Vec::with_capacity(16);
    let finite;
    {
        let mut ser = Serializer::new(&mut out);
        if wide {
            let x = f64::from_bits(kani::any());
            finite = x.is_finite();
            let r = (&mut ser).serialize_f64(x);
            assert!(r.is_ok());
            core::mem::forget(r);
        } else {
            let x = f32::from_bits(kani::any());
            finite = x.is_finite();
            let r = (&mut ser).serialize_f32(x);
            assert!(r.is_ok());
            core::mem::forget(r);
        }
    }
    if finite {
        assert!(out.len() == 3 && out[0] == b'1' && out[1] == b'.' && out[2] == b'5');
    } else {
        assert!(out.len() == 4 && out[0] == b'n' && out[1] == b'u' && out[2] == b'l' && out[3] == b'l');
    }
    kani::cover!(!finite && wide);
    kani::cover!(!finite && !wide);
    kani::cover!(finite);
    core::mem::forget(out);
}

/// C05 U-map-key-char: a `char` map key is handed to the string escaper as its UTF-8 bytes, to be
/// quoted (so '"', '\\' and controls are escaped like in any other string), and nothing reaches the
/// writer by another route. The escaper itself (format_string, decided by the U-format harnesses)
/// is replaced by a recorder.
static mut FS_CALLS: u8 = 0;
static mut FS_LEN: usize = 0;
static mut FS_BYTES: [u8; 4] = [0; 4];
static mut FS_QUOTE: bool = false;
fn format_string_rec(value: &str, _dst: &mut [core::mem::MaybeUninit<u8>], need_quote: bool) -> usize {
    unsafe {
        FS_CALLS += 1;
        FS_LEN = value.len();
        FS_QUOTE = need_quote;
        let b = value.as_bytes();
        let mut i = 0;
        while i < 4 && i < b.len() {
            FS_BYTES[i] = b[i];
            i += 1;
        }
    }
    0
}

#[kani::proof]
#[kani::unwind(6)]
#[kani::stub(crate::util::string::format_string, format_string_rec)]
fn u_map_key_char_goes_through_escaper() {
    let c: char = kani::any();
    let mut out: Vec<u8> = Vec::with_capacity(64);
    {
        let mut ser = Serializer::new(&mut out);
        let r = MapKeySerializer { ser: &mut ser }.serialize_char(c);
        assert!(r.is_ok());
        core::mem::forget(r);
    }
    let mut buf = [0u8; 4];
    let n = c.encode_utf8(&mut buf).len();
    unsafe {
        assert!(FS_CALLS == 1 && FS_QUOTE && FS_LEN == n);
        let mut i = 0;
        while i < 4 {
            assert!(i >= n || FS_BYTES[i] == buf[i]);
            i += 1;
        }
    }
    assert!(out.len() == 0);
    kani::cover!(c == '"');
    kani::cover!(n == 4);
    core::mem::forget(out);
}

/// C08 U-int-widths: every integer width handed to the serializer reaches the digit generator
/// (itoa, cut to a recorder) as the same value of the same width, and exactly the text itoa
/// returns reaches the writer - as a value, and between quotes as a map key.
static mut IT_CALLS: u8 = 0;
static mut IT_SIZE: usize = 0;
static mut IT_BITS: u128 = 0;
fn itoa_format_rec<I: itoa::Integer>(_b: &mut itoa::Buffer, i: I) -> &str {
    unsafe {
        IT_CALLS += 1;
        IT_SIZE = core::mem::size_of::<I>();
        let mut raw = [0u8; 16];
        core::ptr::copy_nonoverlapping(&i as *const I as *const u8, raw.as_mut_ptr(), core::mem::size_of::<I>());
        IT_BITS = u128::from_le_bytes(raw);
    }
    "7"
}

#[kani::proof]
#[kani::unwind(18)]
#[kani::stub(itoa::Buffer::format, itoa_format_rec)]
fn u_int_widths_reach_itoa() {
    let which: u8 = kani::any();
    kani::assume(which < 10);
    let key: bool = kani::any();
    let v: u128 = kani::any();
    let mut out: Vec<u8> = Vec::with_capacity(16);
    let (size, bits): (usize, u128);
    {
        let mut ser = Serializer::new(&mut out);
        macro_rules! go {
            ($m:ident, $t:ty) => {{
                let x = v as $t;
                let r = if key { MapKeySerializer { ser: &mut ser }.$m(x) } else { (&mut ser).$m(x) };
                assert!(r.is_ok());
                core::mem::forget(r);
                let mut raw = [0u8; 16];
                let le = x.to_le_bytes();
                let mut i = 0;
                while i < le.len() {
                    raw[i] = le[i];
                    i += 1;
                }
                (core::mem::size_of::<$t>(), u128::from_le_bytes(raw))
            }};
        }
        (size, bits) = match which {
            0 => go!(serialize_i8, i8),
            1 => go!(serialize_i16, i16),
            2 => go!(serialize_i32, i32),
            3 => go!(serialize_i64, i64),
            4 => go!(serialize_i128, i128),
            5 => go!(serialize_u8, u8),
            6 => go!(serialize_u16, u16),
            7 => go!(serialize_u32, u32),
            8 => go!(serialize_u64, u64),
            _ => go!(serialize_u128, u128),
        };
    }
    unsafe {
        assert!(IT_CALLS == 1);
        assert!(IT_SIZE == size);
        assert!(IT_BITS == bits);
    }
    if key {
        assert!(out.len() == 3 && out[0] == b'"' && out[1] == b'7' && out[2] == b'"');
    } else {
        assert!(out.len() == 1 && out[0] == b'7');
    }
    kani::cover!(which == 4 && !key);
    kani::cover!(which == 9 && key);
    core::mem::forget(out);
}

/// A fixed small shape with symbolic leaves: [b0, [b1], [], {"k": b2, "": null}, {}]
struct Shape {
    b: [bool; 3],
}

struct Inner1(bool);
struct Empty;
struct Obj(bool);
struct EmptyObj;

impl Serialize for Inner1 {
    fn serialize<S: ser::Serializer>(&self, s: S) -> std::result::Result<S::Ok, S::Error> {
        let mut q = s.serialize_seq(Some(1))?;
        q.serialize_element(&self.0)?;
        q.end()
    }
}
impl Serialize for Empty {
    fn serialize<S: ser::Serializer>(&self, s: S) -> std::result::Result<S::Ok, S::Error> {
        s.serialize_seq(Some(0))?.end()
    }
}
impl Serialize for Obj {
    fn serialize<S: ser::Serializer>(&self, s: S) -> std::result::Result<S::Ok, S::Error> {
        let mut m = s.serialize_map(Some(2))?;
        m.serialize_entry("k", &self.0)?;
        m.serialize_entry("", &())?;
        m.end()
    }
}
impl Serialize for EmptyObj {
    fn serialize<S: ser::Serializer>(&self, s: S) -> std::result::Result<S::Ok, S::Error> {
        s.serialize_map(Some(0))?.end()
    }
}
impl Serialize for Shape {
    fn serialize<S: ser::Serializer>(&self, s: S) -> std::result::Result<S::Ok, S::Error> {
        let mut q = s.serialize_seq(Some(5))?;
        q.serialize_element(&self.b[0])?;
        q.serialize_element(&Inner1(self.b[1]))?;
        q.serialize_element(&Empty)?;
        q.serialize_element(&Obj(self.b[2]))?;
        q.serialize_element(&EmptyObj)?;
        q.end()
    }
}

fn push(out: &mut [u8; 160], o: &mut usize, s: &[u8]) {
    let mut i = 0;
    while i < s.len() {
        out[*o] = s[i];
        *o += 1;
        i += 1;
    }
}

fn lit(b: bool) -> &'static [u8] {
    if b {
        b"true"
    } else {
        b"false"
    }
}

fn expect_compact(b: &[bool; 3], out: &mut [u8; 160]) -> usize {
    let mut o = 0;
    push(out, &mut o, b"[");
    push(out, &mut o, lit(b[0]));
    push(out, &mut o, b",[");
    push(out, &mut o, lit(b[1]));
    push(out, &mut o, b"],[],{\"k\":");
    push(out, &mut o, lit(b[2]));
    push(out, &mut o, b",\"\":null},{}]");
    o
}

fn expect_pretty(b: &[bool; 3], out: &mut [u8; 160]) -> usize {
    let mut o = 0;
    push(out, &mut o, b"[\n  ");
    push(out, &mut o, lit(b[0]));
    push(out, &mut o, b",\n  [\n    ");
    push(out, &mut o, lit(b[1]));
    push(out, &mut o, b"\n  ],\n  [],\n  {\n    \"k\": ");
    push(out, &mut o, lit(b[2]));
    push(out, &mut o, b",\n    \"\": null\n  },\n  {}\n]");
    o
}

/// C05 W-compound: commas, colons, empty containers and (pretty) indentation of a fixed shape
/// with symbolic boolean leaves, compact and pretty, against the prescribed text.
#[kani::proof]
#[kani::unwind(7)]
#[kani::stub(core::arch::x86_64::_mm_max_epu8, crate::verif_kmodels::mm_max_epu8)]
fn w_compound_shape() {
    let v = Shape { b: kani::any() };
    let pretty: bool = kani::any();
    let r = if pretty { to_vec_pretty(&v) } else { to_vec(&v) };
    let got = r.as_ref().ok().unwrap();
    let mut exp = [0u8; 160];
    let el = if pretty { expect_pretty(&v.b, &mut exp) } else { expect_compact(&v.b, &mut exp) };
    assert_eq!(got.len(), el);
    let i: usize = kani::any();
    kani::assume(i < el);
    assert_eq!(got[i], exp[i]);
    kani::cover!(pretty && v.b[0] && !v.b[2]);
    kani::cover!(!pretty && !v.b[1]);
    core::mem::forget(r);
}

/// A writer that accepts `left` more bytes and then fails.
struct Failing {
    left: usize,
    out: [u8; 64],
    n: usize,
    scratch: [core::mem::MaybeUninit<u8>; 64],
}

impl io::Write for Failing {
    fn write(&mut self, buf: &[u8]) -> io::Result<usize> {
        if buf.is_empty() {
            return Ok(0);
        }
        if self.left == 0 {
            return Err(io::Error::from(io::ErrorKind::BrokenPipe));
        }
        let k = if buf.len() < self.left { buf.len() } else { self.left };
        let mut i = 0;
        while i < k {
            self.out[self.n] = buf[i];
            self.n += 1;
            i += 1;
        }
        self.left -= k;
        Ok(k)
    }
    fn flush(&mut self) -> io::Result<()> {
        Ok(())
    }
}

impl WriteExt for Failing {
    fn reserve_with(&mut self, additional: usize) -> io::Result<&mut [core::mem::MaybeUninit<u8>]> {
        assert!(additional <= 64);
        Ok(&mut self.scratch[..additional])
    }
    unsafe fn flush_len(&mut self, additional: usize) -> io::Result<()> {
        let mut tmp = [0u8; 64];
        let mut i = 0;
        while i < additional {
            tmp[i] = self.scratch[i].assume_init();
            i += 1;
        }
        io::Write::write_all(self, &tmp[..additional])
    }
}

struct Small(bool, u8);
impl Serialize for Small {
    fn serialize<S: ser::Serializer>(&self, s: S) -> std::result::Result<S::Ok, S::Error> {
        let mut m = s.serialize_map(Some(1))?;
        let key = [self.1];
        m.serialize_entry(unsafe { core::str::from_utf8_unchecked(&key) }, &self.0)?;
        m.end()
    }
}

/// C05 W-failing: a writer that fails after k bytes makes to_writer return Err (never
/// swallowed) iff the output is longer than k, and what reached the writer is a prefix of the
/// correct output.
#[kani::proof]
#[kani::unwind(7)]
#[kani::stub(core::arch::x86_64::_mm_max_epu8, crate::verif_kmodels::mm_max_epu8)]
#[kani::stub(core::fmt::write, crate::verif_kmodels::fmt_write_cut)]
fn w_failing_writer() {
    let k: usize = kani::any();
    kani::assume(k <= 16);
    let c: u8 = kani::any();
    kani::assume(c < 0x80);
    let v = Small(kani::any(), c);
    let full = to_vec(&v);
    let full = full.as_ref().ok().unwrap();
    let mut w = Failing { left: k, out: [0; 64], n: 0, scratch: [core::mem::MaybeUninit::new(0); 64] };
    let r = to_writer(&mut w, &v);
    assert_eq!(r.is_err(), full.len() > k);
    assert!(w.n <= full.len());
    if r.is_ok() {
        assert_eq!(w.n, full.len());
    }
    let i: usize = kani::any();
    kani::assume(i < w.n);
    assert_eq!(w.out[i], full[i]);
    kani::cover!(r.is_err() && w.n > 3);
    kani::cover!(r.is_ok());
    kani::cover!(r.is_err() && c == b'"');
    core::mem::forget(r);
}

/// C05 U-write-string-fast: the reserve/commit entry point every string, map key and
/// `collect_str` fragment goes through, for every ASCII string of length <= 2 (the empty one
/// included), quoted or not, compact or pretty formatter: the writer receives exactly the
/// specified escaping of the string (between quotes iff asked), and the window handed to the
/// escaper is at least the 6n+35 bytes it may touch. The escaper (format_string, decided by the
/// U-format harnesses) is replaced by the specification escaper writing into the same window.
fn format_string_spec(value: &str, dst: &mut [core::mem::MaybeUninit<u8>], need_quote: bool) -> usize {
    let b = value.as_bytes();
    assert!(dst.len() >= b.len() * 6 + 32 + 3, "reserved window smaller than the escaper may touch");
    let mut tmp = [0u8; 16];
    let n = crate::verif_refs::ref_escape(b, b.len(), need_quote, &mut tmp);
    let mut i = 0;
    while i < n {
        dst[i] = core::mem::MaybeUninit::new(tmp[i]);
        i += 1;
    }
    n
}

#[kani::proof]
#[kani::unwind(16)]
#[kani::stub(crate::util::string::format_string, format_string_spec)]
fn u_write_string_fast_n2() {
    use crate::format::{CompactFormatter, Formatter, PrettyFormatter};
    let raw: [u8; 2] = kani::any();
    kani::assume(raw[0] < 0x80 && raw[1] < 0x80);
    let len: usize = kani::any();
    kani::assume(len <= 2);
    let s = unsafe { core::str::from_utf8_unchecked(&raw[..len]) };
    let need_quote: bool = kani::any();
    let pretty: bool = kani::any();
    let mut out: Vec<u8> = Vec::with_capacity(64);
    let r = if pretty {
        PrettyFormatter::new().write_string_fast(&mut out, s, need_quote)
    } else {
        CompactFormatter.write_string_fast(&mut out, s, need_quote)
    };
    assert!(r.is_ok());
    core::mem::forget(r);
    let mut exp = [0u8; 16];
    let n = crate::verif_refs::ref_escape(&raw, len, need_quote, &mut exp);
    assert_eq!(out.len(), n);
    kani::cover!(len == 0 && !need_quote);
    kani::cover!(len == 0 && need_quote);
    kani::cover!(n == 14);
    let i: usize = kani::any();
    if i < n {
        assert_eq!(out[i], exp[i]);
    }
    core::mem::forget(out);
}
