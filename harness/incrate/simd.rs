//! C17 K-simd: every vector primitive of the backend cfg selects on this target
//! (sse2.rs + v256.rs + v512.rs + bits.rs) equals its lane-wise scalar definition, for all
//! inputs (a symbolic lane index covers every lane in one query).
use super::*;

#[path = "../common/kmodels.rs"]
mod kmodels;

macro_rules! lanewise_u8 {
    ($name:ident, $name_le:ident, $name_splat:ident, $V:ty, $N:expr, $M:ty) => {
        #[kani::proof]
        fn $name() {
            let a: [u8; $N] = kani::any();
            let b: [u8; $N] = kani::any();
            let (va, vb) = unsafe { (<$V>::loadu(a.as_ptr()), <$V>::loadu(b.as_ptr())) };
            // load/store round trip
            let mut out = [0u8; $N];
            unsafe { va.storeu(out.as_mut_ptr()) };
            let i: usize = kani::any();
            kani::assume(i < $N);
            assert_eq!(out[i], a[i]);
            // eq + bitmask: bit i <=> lane i equal
            let m: $M = va.eq(&vb).bitmask();
            assert_eq!((m >> i) & 1 == 1, a[i] == b[i]);
            kani::cover!(m != 0 && m != <$M>::MAX);
        }

        #[kani::proof]
        #[kani::stub(core::arch::x86_64::_mm_max_epu8, kmodels::mm_max_epu8)]
        fn $name_le() {
            let a: [u8; $N] = kani::any();
            let b: [u8; $N] = kani::any();
            let (va, vb) = unsafe { (<$V>::loadu(a.as_ptr()), <$V>::loadu(b.as_ptr())) };
            let i: usize = kani::any();
            kani::assume(i < $N);
            let m: $M = va.le(&vb).bitmask();
            assert_eq!((m >> i) & 1 == 1, a[i] <= b[i]);
            kani::cover!(m != 0 && m != <$M>::MAX);
        }

        #[kani::proof]
        fn $name_splat() {
            let c: u8 = kani::any();
            let v = <$V>::splat(c);
            let mut out = [0u8; $N];
            unsafe { v.storeu(out.as_mut_ptr()) };
            let i: usize = kani::any();
            kani::assume(i < $N);
            assert_eq!(out[i], c);
        }
    };
}

macro_rules! lanewise_i8 {
    ($name:ident, $V:ty, $N:expr, $M:ty) => {
        #[kani::proof]
        fn $name() {
            let a: [u8; $N] = kani::any();
            let b: [u8; $N] = kani::any();
            let (va, vb) = unsafe { (<$V>::loadu(a.as_ptr()), <$V>::loadu(b.as_ptr())) };
            let i: usize = kani::any();
            kani::assume(i < $N);
            let (x, y) = (a[i] as i8, b[i] as i8);
            let m: $M = va.gt(&vb).bitmask();
            assert_eq!((m >> i) & 1 == 1, x > y);
            let m: $M = va.le(&vb).bitmask();
            assert_eq!((m >> i) & 1 == 1, x <= y);
            let m: $M = va.eq(&vb).bitmask();
            assert_eq!((m >> i) & 1 == 1, x == y);
            let c: i8 = kani::any();
            let mut out = [0u8; $N];
            unsafe { <$V>::splat(c).storeu(out.as_mut_ptr()) };
            assert_eq!(out[i] as i8, c);
            unsafe { va.storeu(out.as_mut_ptr()) };
            assert_eq!(out[i], a[i]);
            kani::cover!(x > y);
            kani::cover!(x < 0 && y >= 0);
        }
    };
}

lanewise_u8!(k_simd_u8x16_eq, k_simd_u8x16_le, k_simd_u8x16_splat, u8x16, 16, u16);
lanewise_u8!(k_simd_u8x32_eq, k_simd_u8x32_le, k_simd_u8x32_splat, u8x32, 32, u32);
lanewise_u8!(k_simd_u8x64_eq, k_simd_u8x64_le, k_simd_u8x64_splat, u8x64, 64, u64);
lanewise_i8!(k_simd_i8x16, i8x16, 16, u16);
lanewise_i8!(k_simd_i8x32, i8x32, 32, u32);
lanewise_i8!(k_simd_i8x64, i8x64, 64, u64);

/// Mask algebra on m8x32 (used by get_next_token, skip_string, escaped_mask): |, |=, &, splat.
#[kani::proof]
fn k_simd_mask256_ops() {
    let a: [u8; 32] = kani::any();
    let x: u8 = kani::any();
    let y: u8 = kani::any();
    let va = unsafe { u8x32::loadu(a.as_ptr()) };
    let i: usize = kani::any();
    kani::assume(i < 32);
    let or: u32 = (va.eq(&u8x32::splat(x)) | va.eq(&u8x32::splat(y))).bitmask();
    assert_eq!((or >> i) & 1 == 1, a[i] == x || a[i] == y);
    let and: u32 = (va.eq(&u8x32::splat(x)) & va.eq(&u8x32::splat(y))).bitmask();
    assert_eq!((and >> i) & 1 == 1, a[i] == x && a[i] == y);
    let mut acc = m8x32::splat(false);
    acc |= va.eq(&u8x32::splat(x));
    acc |= va.eq(&u8x32::splat(y));
    assert_eq!(acc.bitmask(), or);
    assert_eq!(m8x32::splat(true).bitmask(), u32::MAX);
    assert_eq!(m8x32::splat(false).bitmask(), 0);
    kani::cover!(and != 0);
    kani::cover!(or != 0 && and == 0);
}

macro_rules! bitmask_laws {
    ($name:ident, $T:ty, $LEN:expr) => {
        #[kani::proof]
        fn $name() {
            let a: $T = kani::any();
            let b: $T = kani::any();
            // scalar definitions
            let first = |v: $T| -> usize {
                let mut i = 0;
                while i < $LEN {
                    if (v >> i) & 1 == 1 {
                        return i;
                    }
                    i += 1;
                }
                $LEN
            };
            assert_eq!(a.first_offset(), first(a));
            // `before` is only meaningful for disjoint masks (its callers compare the quote /
            // backslash / control-character masks of one block, which cannot overlap); the
            // byte-level consequence is decided by k_string_block in util/string.rs.
            if a & b == 0 {
                assert_eq!(a.before(&b), first(a) < first(b));
            }
            assert_eq!(a.all_zero(), a == 0);
            assert_eq!(a.as_little_endian(), a);
            let n: usize = kani::any();
            kani::assume(n < $LEN);
            let c = a.clear_high_bits(n);
            let i: usize = kani::any();
            kani::assume(i < $LEN);
            let expect = if i >= $LEN - n { false } else { (a >> i) & 1 == 1 };
            assert_eq!((c >> i) & 1 == 1, expect);
            kani::cover!(a & b == 0 && a.before(&b) && b != 0);
            kani::cover!(n > 0 && c != a);
        }
    };
}

bitmask_laws!(k_bits_u16, u16, 16);
bitmask_laws!(k_bits_u32, u32, 32);
bitmask_laws!(k_bits_u64, u64, 64);
