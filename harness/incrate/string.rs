//! Harnesses inside `crate::util::string` (StringBlock, tables, format_string, check_cross_page).
use super::*;
use crate::verif_refs::*;

/// C09 K-stringblock: on every 32-byte block the classification used by both real decoders
/// equals "which of {quote, backslash, control byte} comes first and where".
#[kani::proof]
#[kani::stub(core::arch::x86_64::_mm_max_epu8, crate::verif_kmodels::mm_max_epu8)]
fn k_string_block() {
    let d: [u8; 32] = kani::any();
    let v: u8x32 = unsafe { load(d.as_ptr()) };
    let blk = StringBlock::new(&v);
    let (mut q, mut b, mut c) = (32usize, 32usize, 32usize);
    let mut i = 32;
    while i > 0 {
        i -= 1;
        if d[i] == b'"' {
            q = i;
        }
        if d[i] == b'\\' {
            b = i;
        }
        if d[i] <= 0x1f {
            c = i;
        }
    }
    assert_eq!(blk.has_unescaped(), c < q);
    assert_eq!(blk.has_quote_first(), q < b && !(c < q));
    assert_eq!(blk.has_backslash(), b < q);
    if q < 32 {
        assert_eq!(blk.quote_index(), q);
    }
    if b < 32 {
        assert_eq!(blk.bs_index(), b);
    }
    if c < 32 {
        assert_eq!(blk.unescaped_index(), c);
    }
    kani::cover!(q < b && b < 32 && c == 32);
    kani::cover!(c < q && q < 32);
    kani::cover!(b < q && q < 32);
}

/// C05/C09 K-tables: the three byte tables agree with the specification for all 256 bytes.
#[kani::proof]
fn k_string_tables() {
    let c: u8 = kani::any();
    // decoder side: the byte after a backslash
    assert_eq!(ESCAPED_TAB[c as usize], simple_escape(c));
    // encoder side
    let s = [c];
    let mut out = [0u8; 8];
    let l = ref_escape(&s, 1, false, &mut out);
    let (cnt, bytes) = QUOTE_TAB[c as usize];
    let needs = c == b'"' || c == b'\\' || c < 0x20;
    assert_eq!(NEED_ESCAPED[c as usize] != 0, needs);
    if needs {
        assert_eq!(cnt as usize, l);
        let i: usize = kani::any();
        kani::assume(i < l);
        assert_eq!(bytes[i], out[i]);
    } else {
        assert_eq!(cnt, 0);
    }
    kani::cover!(needs && l == 6);
    kani::cover!(needs && l == 2);
}

/// C01/C05 K-page: if check_cross_page says "no", a 32-byte load at ptr stays inside one 4 KiB page.
#[kani::proof]
fn k_check_cross_page() {
    let p: usize = kani::any();
    kani::assume(p <= usize::MAX - 64);
    let cross = check_cross_page(p as *const u8, 32);
    if !cross {
        assert_eq!(p >> 12, (p + 31) >> 12);
    }
    kani::cover!(cross);
    kani::cover!(!cross);
}

/// C05/C01 U-format_string: for every byte string of length <= N (a superset of the valid UTF-8
/// strings of that length) the bytes written equal the specified escaping, the returned length
/// is exact, all writes stay inside the 6n+35 window (Kani's pointer checks), with and without
/// quotes.
fn format_string_body<const N: usize, const W: usize>() {
    let src: [u8; N] = kani::any();
    let n: usize = kani::any();
    kani::assume(n <= N);
    let quote: bool = kani::any();
    let mut dst: [MaybeUninit<u8>; W] = [MaybeUninit::new(0xAA); W];
    let s = unsafe { from_utf8_unchecked(&src[..n]) };
    let len = format_string(s, &mut dst[..n * 6 + 32 + 3], quote);
    let mut expect = [0u8; W];
    let el = ref_escape(&src, n, quote, &mut expect);
    assert_eq!(len, el);
    let i: usize = kani::any();
    kani::assume(i < el);
    assert_eq!(unsafe { dst[i].assume_init() }, expect[i]);
    kani::cover!(el == 6 * N + 2);
    kani::cover!(n == N && el == N);
    kani::cover!(n == N && el > N + 2 && el < 6 * N);
}

#[kani::proof]
#[kani::unwind(6)]
#[kani::stub(core::arch::x86_64::_mm_max_epu8, crate::verif_kmodels::mm_max_epu8)]
#[kani::stub(core::fmt::write, crate::verif_kmodels::fmt_write_cut)]
fn u_format_string_n3() {
    format_string_body::<3, 53>();
}

#[kani::proof]
#[kani::unwind(7)]
#[kani::stub(core::arch::x86_64::_mm_max_epu8, crate::verif_kmodels::mm_max_epu8)]
#[kani::stub(core::fmt::write, crate::verif_kmodels::fmt_write_cut)]
fn u_format_string_n4() {
    format_string_body::<4, 59>();
}

#[kani::proof]
#[kani::unwind(9)]
#[kani::stub(core::arch::x86_64::_mm_max_epu8, crate::verif_kmodels::mm_max_epu8)]
#[kani::stub(core::fmt::write, crate::verif_kmodels::fmt_write_cut)]
fn u_format_string_n6() {
    format_string_body::<6, 71>();
}

#[kani::proof]
#[kani::unwind(11)]
#[kani::stub(core::arch::x86_64::_mm_max_epu8, crate::verif_kmodels::mm_max_epu8)]
#[kani::stub(core::fmt::write, crate::verif_kmodels::fmt_write_cut)]
fn u_format_string_n8() {
    format_string_body::<8, 83>();
}

/// C05 B-format_string: 34-byte string (one 32-byte block + 2-byte tail), neutral 'x' except a
/// 6-byte symbolic window at 28..34 across the block edge: output bytes and length equal the
/// specified escaping, all writes stay inside the 6n+35 window.
#[kani::proof]
#[kani::unwind(4)]
#[kani::stub(core::arch::x86_64::_mm_max_epu8, crate::verif_kmodels::mm_max_epu8)]
#[kani::stub(core::fmt::write, crate::verif_kmodels::fmt_write_cut)]
fn b_format_string_w28() {
    const N: usize = 34;
    const W: usize = N * 6 + 35;
    let w: [u8; 6] = kani::any();
    let mut src = [b'x'; N];
    let mut k = 0;
    while k < 6 {
        src[28 + k] = w[k];
        k += 1;
    }
    let mut dst: [MaybeUninit<u8>; W] = [MaybeUninit::new(0xAA); W];
    let s = unsafe { from_utf8_unchecked(&src[..]) };
    let len = format_string(s, &mut dst[..], true);
    let mut expect = [0u8; W];
    let el = ref_escape(&src, N, true, &mut expect);
    assert_eq!(len, el);
    let i: usize = kani::any();
    kani::assume(i < el);
    assert_eq!(unsafe { dst[i].assume_init() }, expect[i]);
    kani::cover!(el == N + 2 + 5 * 6);
    kani::cover!(el == N + 2);
    kani::cover!(el == N + 3 && src[31] == b'"');
}

/// C09/C02/C01 U-inplace: the in-place decoder of the whole-input DOM parse on a 6-byte symbolic
/// document followed by the real 64-byte padding (`x"x` + zeros): accept/reject, the decoded
/// bytes (compacted in place), their length and the final cursor equal the reference decoder
/// run over the padded buffer; every 32-byte load and every store stays inside the padded
/// buffer (Kani's pointer checks) - i.e. the padding is sufficient.
fn inplace_body<const N: usize, const M: usize>(lossy: bool) {
    let doc: [u8; N] = kani::any();
    let mut buf = [0u8; M];
    let mut i = 0;
    while i < N {
        buf[i] = doc[i];
        i += 1;
    }
    buf[N] = b'x';
    buf[N + 1] = b'"';
    buf[N + 2] = b'x';
    let orig = buf;
    let mut out = [0u8; 16];
    let expect = ref_decode_string(&orig, N + 3, 0, lossy, &mut out);
    let base = buf.as_mut_ptr();
    let mut src = base;
    let r = unsafe { parse_string_inplace(&mut src, lossy) };
    match (&r, expect) {
        (Ok(cnt), Some((end, len))) => {
            assert_eq!(*cnt, len);
            assert_eq!(unsafe { src.offset_from(base) } as usize, end);
            let k: usize = kani::any();
            kani::assume(k < len);
            assert_eq!(buf[k], out[k]);
        }
        (Err(_), None) => {}
        _ => panic!("parse_string_inplace: accept/reject differs from the reference decoder"),
    }
    kani::cover!(matches!(&r, Ok(c) if *c == 1) && doc[0] == b'\\');
    kani::cover!(matches!(&r, Ok(c) if *c == N + 1));
    kani::cover!(r.is_err() && doc[0] == b'\\' && doc[1] == b'u');
    kani::cover!(matches!(&r, Ok(c) if *c == 3) && doc[0] == b'\\' && doc[1] == b'u');
}

/// C09/C02 U-inplace-verdict: the same decoder on `w0 w1 n " x` + zero padding with only w0, w1
/// symbolic and `\u` excluded: accept/reject and the decoded length equal the reference decoder's
/// (a raw control character before the first escape must be rejected even when an escape follows
/// in the same block).
#[kani::proof]
#[kani::unwind(5)]
#[kani::stub(core::arch::x86_64::_mm_max_epu8, crate::verif_kmodels::mm_max_epu8)]
fn u_parse_string_inplace_verdict_n2() {
    let doc: [u8; 2] = kani::any();
    kani::assume(doc[1] != b'u' && doc[0] != b'u');
    let mut buf = [0u8; 70];
    buf[0] = doc[0];
    buf[1] = doc[1];
    buf[2] = b'n';
    buf[3] = b'"';
    buf[4] = b'x';
    let orig = buf;
    let mut out = [0u8; 16];
    let expect = ref_decode_string(&orig, 5, 0, false, &mut out);
    let base = buf.as_mut_ptr();
    let mut src = base;
    let r = unsafe { parse_string_inplace(&mut src, false) };
    match (&r, expect) {
        (Ok(cnt), Some((_end, len))) => assert_eq!(*cnt, len),
        (Err(_), None) => {}
        _ => panic!("parse_string_inplace: accept/reject differs from the reference decoder"),
    }
    kani::cover!(r.is_ok() && doc[1] == b'\\');
    kani::cover!(r.is_err() && doc[0] < 0x20 && doc[1] == b'\\');
    kani::cover!(r.is_ok() && doc[0] == b'"');
}

#[kani::proof]
#[kani::unwind(5)]
#[kani::stub(core::arch::x86_64::_mm_max_epu8, crate::verif_kmodels::mm_max_epu8)]
fn u_parse_string_inplace_n6() {
    inplace_body::<6, 70>(false);
}

#[kani::proof]
#[kani::unwind(5)]
#[kani::stub(core::arch::x86_64::_mm_max_epu8, crate::verif_kmodels::mm_max_epu8)]
fn u_parse_string_inplace_lossy_n6() {
    inplace_body::<6, 70>(true);
}

/// C09/C02 U-inplace-prefix: the in-place decoder of the DOM parse on `p0 .. p(P-1) \ n " x` +
/// zero padding, where the P prefix bytes are symbolic (any byte but a backslash) and the tail is
/// concrete: accept/reject, decoded length, final cursor and every decoded byte equal the
/// reference decoder's. The prefix decides which of the three tests of the escape-free block
/// loop fires (closing quote first / raw control byte / break at the backslash); on the "break"
/// path the real escape loop and the real find-and-move loop run on concrete bytes. In particular
/// a raw control byte in front of the first escape of the same block must be rejected although
/// the block also has a backslash (the order of the two tests in the first loop).
fn inplace_prefix_body<const P: usize>(lossy: bool) {
    let pre: [u8; P] = kani::any();
    let mut buf = [0u8; 112];
    let mut i = 0;
    while i < P {
        kani::assume(pre[i] != b'\\');
        buf[i] = pre[i];
        i += 1;
    }
    buf[P] = b'\\';
    buf[P + 1] = b'n';
    buf[P + 2] = b'"';
    buf[P + 3] = b'x';
    let orig = buf;
    let mut out = [0u8; 48];
    let expect = ref_decode_string(&orig, P + 4, 0, lossy, &mut out);
    let base = buf.as_mut_ptr();
    let mut src = base;
    let r = unsafe { parse_string_inplace(&mut src, lossy) };
    match (&r, expect) {
        (Ok(cnt), Some((end, len))) => {
            assert_eq!(*cnt, len);
            assert_eq!(unsafe { src.offset_from(base) } as usize, end);
            let k: usize = kani::any();
            kani::assume(k < len);
            assert_eq!(buf[k], out[k]);
        }
        (Err(_), None) => {}
        _ => panic!("parse_string_inplace: accept/reject differs from the reference decoder"),
    }
    kani::cover!(matches!(&r, Ok(c) if *c == P + 1));
    kani::cover!(matches!(&r, Ok(c) if *c + 1 == P));
    kani::cover!(r.is_err());
}

#[kani::proof]
#[kani::stub(core::arch::x86_64::_mm_max_epu8, crate::verif_kmodels::mm_max_epu8)]
fn u_parse_string_inplace_prefix_p4() {
    inplace_prefix_body::<4>(false);
}
