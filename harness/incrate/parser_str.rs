//! String-decoding harnesses inside `crate::parser` (copying / borrowing decoder).
use super::*;
use crate::{reader::Read, verif_refs::*};

fn mk<'a>(b: &'a [u8]) -> Parser<Read<'a>> {
    Parser::new(Read::new(b, false))
}

/// C09 K-unicode (copying decoder): reader just after `\u`; for every buffer of length <= 10
/// (4 hex digits + up to 6 following bytes, and every truncation), strict and lossy,
/// parse_escaped_utf8 followed by the caller's codepoint_to_utf8 validity test yields exactly
/// the scalar UTF-16 semantics prescribe and leaves the reader exactly after what was decoded.
#[kani::proof]
#[kani::stub(crate::error::Error::syntax, crate::error::verif_kani_error::syntax_cut)]
fn k_unicode_copying() {
    const N: usize = 10;
    let buf: [u8; N] = kani::any();
    let n: usize = kani::any();
    kani::assume(n <= N);
    let lossy: bool = kani::any();
    let mut p = mk(&buf[..n]);
    p.cfg.utf8_lossy = lossy;
    let r = p.parse_escaped_utf8();
    // the caller (parse_escaped_char) rejects whatever codepoint_to_utf8 cannot encode
    let mut tmp = [0u8; 4];
    let got = match &r {
        Ok(cp) => {
            let l = unsafe { codepoint_to_utf8(*cp, tmp.as_mut_ptr()) };
            if l == 0 {
                None
            } else {
                Some((*cp, p.read.index()))
            }
        }
        Err(_) => None,
    };
    match ref_decode_u_escape(&buf, n, 0, lossy) {
        RefEsc::Scalar(cp, next) => assert_eq!(got, Some((cp, next))),
        RefEsc::Bad => assert!(got.is_none()),
    }
    kani::cover!(matches!(got, Some((c, 10)) if c >= 0x10000));
    kani::cover!(matches!(got, Some((0xFFFD, 4))) && lossy && n == 10 && buf[0] == b'd');
    kani::cover!(got.is_none() && n >= 4);
    core::mem::forget(r);
}

/// Cut: the escape branch (copying through a Vec) is assumed away by the harness below, but it is
/// syntactically reachable and dominates the formula; it must not be entered.
unsafe fn cut_parse_string_escaped<'de, 'own, R: Reader<'de>>(
    p: &mut Parser<R>,
    _buf: &'own mut Vec<u8>,
) -> Result<ParsedSlice<'de, 'own>> {
    kani::assert(false, "escape branch entered although the literal has no backslash");
    Err(crate::error::verif_kani_error::syntax_cut(InvalidEscape, p.read.as_u8_slice(), 0))
}

/// C09/C02 U-parse_string_raw (borrowed branch): reader just after the opening quote; for every
/// buffer of length <= N *without a backslash before the closing quote* the decoder returns the
/// literal borrowed with the exact span, rejects raw control characters and a missing quote.
/// (The escape branch allocates and copies through a Vec and does not fit; see DESIGN.md C09.)
#[kani::proof]
#[kani::unwind(10)]
#[kani::stub(crate::error::Error::syntax, crate::error::verif_kani_error::syntax_cut)]
#[kani::stub(core::arch::x86_64::_mm_max_epu8, crate::verif_kmodels::mm_max_epu8)]
#[kani::stub(Parser::parse_string_escaped, cut_parse_string_escaped)]
fn u_parse_string_raw_borrowed_n8() {
    const N: usize = 8;
    let buf: [u8; N] = kani::any();
    let n: usize = kani::any();
    kani::assume(n <= N);
    // no backslash before the first quote / control character / end
    let mut i = 0;
    let mut stop = false;
    while i < n {
        if !stop {
            if buf[i] == b'"' || buf[i] < 0x20 {
                stop = true;
            } else {
                kani::assume(buf[i] != b'\\');
            }
        }
        i += 1;
    }
    let mut scratch: Vec<u8> = Vec::new();
    let mut p = mk(&buf[..n]);
    let r = p.parse_string_raw(&mut scratch);
    let expect = ref_string_end(&buf, n, 0);
    match (&r, expect) {
        (Ok(ParsedSlice::Borrowed { slice, .. }), Some(end)) => {
            assert_eq!(p.read.index(), end);
            assert_eq!(slice.len(), end - 1);
            assert_eq!(slice.as_ptr(), buf.as_ptr());
        }
        (Err(_), None) => {}
        _ => panic!("parse_string_raw (escape-free branch) differs from the string grammar"),
    }
    kani::cover!(r.is_ok() && p.read.index() == N);
    kani::cover!(r.is_err() && n == N);
    core::mem::forget(r);
    core::mem::forget(scratch);
}

/// C09/C02 B-parse_string_raw (borrowed, block path): 40-byte buffer after the opening quote,
/// 8-byte symbolic window at 28..36 without a backslash, closing quote at 38.
#[kani::proof]
#[kani::unwind(4)]
#[kani::stub(crate::error::Error::syntax, crate::error::verif_kani_error::syntax_cut)]
#[kani::stub(core::arch::x86_64::_mm_max_epu8, crate::verif_kmodels::mm_max_epu8)]
#[kani::stub(Parser::parse_string_escaped, cut_parse_string_escaped)]
fn b_parse_string_raw_borrowed_w28() {
    const N: usize = 40;
    let w: [u8; 8] = kani::any();
    let mut buf = [b'x'; N];
    let mut k = 0;
    while k < 8 {
        kani::assume(w[k] != b'\\');
        buf[28 + k] = w[k];
        k += 1;
    }
    buf[38] = b'"';
    let mut scratch: Vec<u8> = Vec::new();
    let mut p = mk(&buf[..]);
    let r = p.parse_string_raw(&mut scratch);
    let expect = ref_string_end(&buf, N, 0);
    match (&r, expect) {
        (Ok(ParsedSlice::Borrowed { slice, .. }), Some(end)) => {
            assert_eq!(p.read.index(), end);
            assert_eq!(slice.len(), end - 1);
            assert_eq!(slice.as_ptr(), buf.as_ptr());
        }
        (Err(_), None) => {}
        _ => panic!("parse_string_raw (block path) differs from the string grammar"),
    }
    kani::cover!(r.is_ok() && p.read.index() == 39);
    kani::cover!(r.is_ok() && p.read.index() == 33);
    kani::cover!(r.is_err() && buf[32] < 0x20);
    core::mem::forget(r);
    core::mem::forget(scratch);
}

// ---- U-parse_str (copying decoder, escape branch) -------------------------------------------------
//
// The scratch Vec is pre-sized and its growing operations are replaced by models that assert the
// capacity suffices and write in place (heap growth with a symbolic length is what made the
// round-0 probes run away). What is decided is the decoder's own logic: which bytes it writes,
// where it stops, what it rejects.

fn vec_reserve_model<T, A: std::alloc::Allocator>(v: &mut Vec<T, A>, additional: usize) {
    assert!(v.capacity() - v.len() >= additional, "scratch capacity exceeded in the harness");
}

fn vec_push_model<T, A: std::alloc::Allocator>(v: &mut Vec<T, A>, value: T) {
    assert!(v.len() < v.capacity(), "scratch capacity exceeded in the harness");
    unsafe {
        let l = v.len();
        core::ptr::write(v.as_mut_ptr().add(l), value);
        v.set_len(l + 1);
    }
}

fn vec_extend_from_slice_model<T: Clone, A: std::alloc::Allocator>(v: &mut Vec<T, A>, other: &[T]) {
    assert!(v.capacity() - v.len() >= other.len(), "scratch capacity exceeded in the harness");
    let mut i = 0;
    while i < other.len() {
        unsafe {
            let l = v.len();
            core::ptr::write(v.as_mut_ptr().add(l), other[i].clone());
            v.set_len(l + 1);
        }
        i += 1;
    }
}

/// C09/C02 U-parse_str: for every byte string of length <= N after the opening quote, strict mode,
/// the borrow-or-copy decoder accepts iff the literal is well formed with every `\u` escape
/// denoting a scalar (surrogates paired), returns it borrowed iff it has no escape, and the
/// decoded bytes equal the reference decoding.
fn parse_str_body<const N: usize>() {
    let buf: [u8; N] = kani::any();
    let n: usize = kani::any();
    kani::assume(n <= N);
    let mut scratch: Vec<u8> = Vec::with_capacity(64);
    let mut out = [0u8; 16];
    let expect = ref_decode_string(&buf, n, 0, false, &mut out);
    let mut p = mk(&buf[..n]);
    let r = p.parse_str(&mut scratch);
    match (&r, expect) {
        (Ok(s), Some((end, len))) => {
            assert_eq!(p.read.index(), end);
            assert_eq!(s.len(), len);
            let borrowed = matches!(s, Reference::Borrowed(_));
            assert_eq!(borrowed, !ref_has_backslash(&buf, 0, end));
            let i: usize = kani::any();
            kani::assume(i < len);
            assert_eq!(s.as_bytes()[i], out[i]);
        }
        (Err(_), None) => {}
        _ => panic!("parse_str: accept/reject differs from the reference decoder"),
    }
    kani::cover!(matches!(&r, Ok(Reference::Copied(s)) if s.len() == 1) && n == N);
    kani::cover!(matches!(&r, Ok(Reference::Copied(s)) if s.len() == 3));
    kani::cover!(matches!(&r, Ok(Reference::Borrowed(_))) && n == N);
    kani::cover!(r.is_err() && n == N && buf[0] == b'\\');
    core::mem::forget(r);
    core::mem::forget(scratch);
}

#[kani::proof]
#[kani::unwind(4)]
#[kani::stub(crate::error::Error::syntax, crate::error::verif_kani_error::syntax_cut)]
#[kani::stub(core::arch::x86_64::_mm_max_epu8, crate::verif_kmodels::mm_max_epu8)]
#[kani::stub(alloc::vec::Vec::reserve, vec_reserve_model)]
#[kani::stub(alloc::vec::Vec::push, vec_push_model)]
#[kani::stub(alloc::vec::Vec::extend_from_slice, vec_extend_from_slice_model)]
fn u_parse_str_n7() {
    parse_str_body::<7>();
}
