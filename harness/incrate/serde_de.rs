//! Harnesses inside `crate::serde::de`: the recursion guard (inductive step), the seq/map
//! comma-colon state machines, the stream latch and the raw-number capture.
use super::*;
use crate::{reader::Read, verif_refs::*};
use serde::de::IgnoredAny;

static mut SEEN: u8 = 0;
static mut CALLS: u8 = 0;
static mut VAL_END: [u8; 12] = [0; 12];

/// Visitor that does not consume anything: it records the nesting budget the nested access
/// carries at the moment the container body would be deserialized.
struct DepthProbe;

impl<'de> de::Visitor<'de> for DepthProbe {
    type Value = ();

    fn expecting(&self, _f: &mut std::fmt::Formatter) -> std::fmt::Result {
        Ok(())
    }

    fn visit_seq<A: de::SeqAccess<'de>>(self, seq: A) -> std::result::Result<(), A::Error> {
        unsafe {
            // in these harnesses A is exactly SeqAccess<'_, Read<'_>>
            let sa = &*(&seq as *const A as *const SeqAccess<'static, Read<'static>>);
            SEEN = sa.de.remaining_depth;
            CALLS = CALLS.wrapping_add(1);
        }
        Ok(())
    }

    fn visit_map<A: de::MapAccess<'de>>(self, map: A) -> std::result::Result<(), A::Error> {
        unsafe {
            let ma = &*(&map as *const A as *const MapAccess<'static, Read<'static>>);
            SEEN = ma.de.remaining_depth;
            CALLS = CALLS.wrapping_add(1);
        }
        Ok(())
    }

    fn visit_enum<A: de::EnumAccess<'de>>(self, data: A) -> std::result::Result<(), A::Error> {
        unsafe {
            // on '{' A is exactly VariantAccess<'_, Read<'_>>
            let va = &*(&data as *const A as *const VariantAccess<'static, Read<'static>>);
            SEEN = va.de.remaining_depth;
            CALLS = CALLS.wrapping_add(1);
        }
        core::mem::forget(data);
        Ok(())
    }
}

#[derive(Clone, Copy)]
enum Entry {
    Any,
    Seq,
    Map,
    Struct,
    Enum,
}

/// C01 M-depth (serde): entering a container through `entry` with an arbitrary budget d hands
/// the nested access a budget of exactly d-1, restores d on return, and with d == 1 fails with
/// RecursionLimitExceeded without invoking the visitor. One step for all d => nesting <= 254.
fn depth_step(entry: Entry, text: &'static [u8]) {
    let d: u8 = kani::any();
    kani::assume(d >= 1);
    unsafe {
        CALLS = 0;
        SEEN = 0;
    }
    let mut de = Deserializer::new(Read::new(text, false));
    de.remaining_depth = d;
    let r: Result<()> = match entry {
        Entry::Any => de::Deserializer::deserialize_any(&mut de, DepthProbe),
        Entry::Seq => de::Deserializer::deserialize_seq(&mut de, DepthProbe),
        Entry::Map => de::Deserializer::deserialize_map(&mut de, DepthProbe),
        Entry::Struct => de::Deserializer::deserialize_struct(&mut de, "", &[], DepthProbe),
        Entry::Enum => de::Deserializer::deserialize_enum(&mut de, "", &[], DepthProbe),
    };
    assert_eq!(de.remaining_depth, d);
    if d == 1 {
        assert_eq!(unsafe { CALLS }, 0);
        assert!(crate::error::verif_kani_error::code_is_recursion(r.as_ref().err().unwrap()));
    } else {
        assert!(r.is_ok());
        assert_eq!(unsafe { CALLS }, 1);
        assert_eq!(unsafe { SEEN }, d - 1);
    }
    kani::cover!(d == 1);
    kani::cover!(d == 255);
    core::mem::forget(r);
    core::mem::forget(de);
}

macro_rules! depth_harness {
    ($name:ident, $entry:expr, $text:expr) => {
        #[kani::proof]
        #[kani::unwind(4)]
        #[kani::stub(crate::error::Error::syntax, crate::error::verif_kani_error::syntax_cut)]
        #[kani::stub(crate::parser::Parser::skip_space, model_skip_space)]
        #[kani::stub(crate::parser::Parser::peek_invalid_type, cut_peek_invalid_type)]
        #[kani::stub(crate::parser::Parser::fix_position, cut_fix_position)]
        fn $name() {
            depth_step($entry, $text);
        }
    };
}

depth_harness!(m_depth_any_seq, Entry::Any, b"[]");
depth_harness!(m_depth_any_map, Entry::Any, b"{}");
depth_harness!(m_depth_seq, Entry::Seq, b"[]");
depth_harness!(m_depth_map, Entry::Map, b"{}");
depth_harness!(m_depth_struct_seq, Entry::Struct, b"[]");
depth_harness!(m_depth_struct_map, Entry::Struct, b"{}");
depth_harness!(m_depth_enum, Entry::Enum, b"{}");

/// C02/C01/C20 U-root-value-overrun: the DOM parser works on a padded copy (`x"x` + zeros) and may
/// report an end offset beyond the input when the root value only ends inside the padding (an
/// unterminated string closed by the padding's quote). Whatever offset it reports (the parser
/// itself is cut to an arbitrary offset), `deserialize_value` accepts the value only if it ended
/// inside the input, answers EOF otherwise, and never leaves the reader beyond the input (F13: it
/// returned Ok("abcx") for `"abc` and the next call panicked in Read::remain).
struct UnitProbe;
impl<'de> de::Visitor<'de> for UnitProbe {
    type Value = ();
    fn expecting(&self, _f: &mut std::fmt::Formatter) -> std::fmt::Result {
        Ok(())
    }
    fn visit_bytes<E: de::Error>(self, _v: &[u8]) -> std::result::Result<(), E> {
        Ok(())
    }
}

static mut PAD_END: usize = 0;
fn cut_parse_with_padding(_v: &mut crate::Value, _json: &[u8], _cfg: crate::config::DeserializeCfg) -> Result<usize> {
    Ok(unsafe { PAD_END })
}

fn cut_parse_without_padding<'de, R: Reader<'de>>(
    _v: &mut crate::Value,
    _shared: &mut crate::value::shared::Shared,
    _strbuf: &mut Vec<u8>,
    _parser: &mut Parser<R>,
) -> Result<()> {
    // not reached: the harness starts at index 0 (this cut only keeps the copying DOM parser out of the build)
    assert!(false);
    Ok(())
}

#[kani::proof]
#[kani::unwind(8)]
#[kani::stub(crate::error::Error::syntax, crate::error::verif_kani_error::syntax_cut)]
#[kani::stub(crate::value::node::Value::parse_with_padding, cut_parse_with_padding)]
#[kani::stub(crate::value::node::Value::parse_without_padding, cut_parse_without_padding)]
fn u_root_value_padding_overrun() {
    let text: &'static [u8] = b"\"abc";
    let n: usize = kani::any();
    kani::assume(n >= 1 && n <= text.len() + 3);
    unsafe { PAD_END = n };
    let mut de = Deserializer::new(Read::new(text, false));
    let r: Result<()> = de.deserialize_value(UnitProbe);
    assert!(de.parser.read.index() <= text.len());
    if n > text.len() {
        assert!(crate::error::verif_kani_error::code_is_eof(r.as_ref().err().unwrap()));
    } else {
        assert!(r.is_ok());
        assert!(de.parser.read.index() == n);
    }
    kani::cover!(n == text.len() + 2);
    kani::cover!(n == text.len());
    core::mem::forget(r);
    core::mem::forget(de);
}

/// C20/C01/C02 U-root-value-lossy: with `utf8_lossy` and invalid UTF-8 in the input the root Value
/// is parsed from a `String::from_utf8_lossy` copy, which is longer than the input (U+FFFD per
/// invalid sequence). Whatever end offset or error offset the DOM parser reports *in the copy*
/// (the parser is cut to an arbitrary outcome), the reader is left - and the error located - at the
/// corresponding offset of the caller's input, never beyond it (F16: offsets of the copy were
/// used as they were; the next call panicked in Read::remain, errors pointed past the input).
static mut PAD_FAIL: bool = false;
fn cut_parse_with_padding_any(_v: &mut crate::Value, json: &[u8], _cfg: crate::config::DeserializeCfg) -> Result<usize> {
    unsafe {
        if PAD_FAIL {
            Err(crate::error::verif_kani_error::syntax_cut(ErrorCode::InvalidJsonValue, json, PAD_END))
        } else {
            Ok(PAD_END)
        }
    }
}

/// Model of `String::from_utf8_lossy` for the two inputs of these harnesses (the std decoder's
/// loops over a buffer do not fit; the mapping function under test walks the real `utf8_chunks`).
fn model_from_utf8_lossy_of_text(v: &[u8]) -> std::borrow::Cow<'_, str> {
    if v.len() == 3 {
        assert!(v[1] == 0xff);
        std::borrow::Cow::Borrowed("\"\u{FFFD}\"")
    } else {
        assert!(v.len() == 5 && v[1] == 0xff && v[2] == 0xe2 && v[3] == 0x82);
        std::borrow::Cow::Borrowed("\"\u{FFFD}\u{FFFD}\"")
    }
}

/// `lo`/`hi`: offset in the copy -> lowest / highest acceptable offset in the input
fn lossy_positions_body<const C: usize>(text: &'static [u8], lo: [usize; C], hi: [usize; C]) {
    let copy_len = C - 1;
    let n: usize = kani::any();
    let fail: bool = kani::any();
    kani::assume(n >= 1 && n <= copy_len + 3);
    kani::assume(!fail || n <= copy_len);
    unsafe {
        PAD_END = n;
        PAD_FAIL = fail;
    }
    let mut de = Deserializer::new(crate::reader::verif_kani_reader::read_with_utf8_verdict(text, 1));
    de.parser.cfg.utf8_lossy = true;
    let r: Result<()> = de.deserialize_value(UnitProbe);
    assert!(de.parser.read.index() <= text.len());
    match &r {
        Ok(()) => {
            assert!(!fail && n <= copy_len);
            let i = de.parser.read.index();
            assert!(lo[n] <= i && i <= hi[n]);
        }
        Err(e) => {
            let i = crate::error::verif_kani_error::index_of(e);
            assert!(i <= text.len());
            if fail {
                assert!(lo[n] <= i && i <= hi[n]);
            } else {
                assert!(n > copy_len);
            }
        }
    }
    kani::cover!(r.is_ok() && n == copy_len);
    kani::cover!(fail && n == copy_len - 1);
    kani::cover!(!fail && n == copy_len + 2);
    core::mem::forget(r);
    core::mem::forget(de);
}

/// `"` ff `"`: one invalid byte, the copy has 1+3+1 bytes
#[kani::proof]
#[kani::unwind(8)]
#[kani::stub(crate::error::Error::syntax, crate::error::verif_kani_error::syntax_cut)]
#[kani::stub(alloc::string::String::from_utf8_lossy, model_from_utf8_lossy_of_text)]
#[kani::stub(crate::value::node::Value::parse_with_padding, cut_parse_with_padding_any)]
#[kani::stub(crate::value::node::Value::parse_without_padding, cut_parse_without_padding)]
fn u_root_value_lossy_positions() {
    lossy_positions_body::<6>(b"\"\xff\"", [0, 1, 1, 1, 2, 3], [0, 1, 2, 2, 2, 3]);
}

/// `"` ff (invalid, one byte) e2 82 (truncated sequence, two bytes) `"`; the copy has 1+3+3+1 bytes
#[kani::proof]
#[kani::unwind(12)]
#[kani::stub(crate::error::Error::syntax, crate::error::verif_kani_error::syntax_cut)]
#[kani::stub(alloc::string::String::from_utf8_lossy, model_from_utf8_lossy_of_text)]
#[kani::stub(crate::value::node::Value::parse_with_padding, cut_parse_with_padding_any)]
#[kani::stub(crate::value::node::Value::parse_without_padding, cut_parse_without_padding)]
fn u_root_value_lossy_positions_two() {
    lossy_positions_body::<9>(b"\"\xff\xe2\x82\"", [0, 1, 1, 1, 2, 2, 2, 4, 5], [0, 1, 2, 2, 2, 4, 4, 4, 5]);
}

// ---- models ------------------------------------------------------------------------------------

fn model_skip_space<'de, R: Reader<'de>>(p: &mut Parser<R>) -> Option<u8> {
    let b = p.read.as_u8_slice();
    let n = b.len();
    let j = ref_skip_ws(b, n, p.read.index());
    if j < n {
        p.read.set_index(j + 1);
        Some(b[j])
    } else {
        p.read.set_index(n);
        None
    }
}

fn cut_peek_invalid_type<'de, R: Reader<'de>>(p: &mut Parser<R>, _peek: u8, _exp: &dyn Expected) -> Error {
    crate::error::verif_kani_error::syntax_cut(ErrorCode::UnexpectedVisitType, p.read.as_u8_slice(), 0)
}

fn cut_fix_position<'de, R: Reader<'de>>(_p: &Parser<R>, err: Error) -> Error {
    err
}

unsafe fn val_end(b: &[u8], n: usize, i: usize) -> Option<usize> {
    if i >= n || !is_value_start(b[i]) {
        return None;
    }
    let e = VAL_END[i] as usize;
    if e > i && e <= n {
        Some(e)
    } else {
        None
    }
}

fn model_skip_one<'de, R: Reader<'de>>(p: &mut Parser<R>) -> Result<(&'de [u8], ParseStatus)> {
    unsafe { CALLS = CALLS.wrapping_add(1) };
    let b = p.read.as_u8_slice();
    let n = b.len();
    let i = ref_skip_ws(b, n, p.read.index());
    match unsafe { val_end(b, n, i) } {
        Some(e) => {
            p.read.set_index(e);
            Ok((p.read.slice_unchecked(i, e), ParseStatus::None))
        }
        None => {
            p.read.set_index(if i < n { i + 1 } else { n });
            Err(crate::error::verif_kani_error::syntax_cut(ErrorCode::InvalidJsonValue, b, i))
        }
    }
}

fn setup_vals<const N: usize>() {
    let t: [u8; N] = kani::any();
    unsafe {
        let mut i = 0;
        while i < N {
            VAL_END[i] = t[i];
            i += 1;
        }
        CALLS = 0;
    }
}

// ---- M-seq: one step of SeqAccess::next_element_seed + end_seq -----------------------------------

/// C02 M-seq: from every (first, position) in every buffer of length <= N the serde sequence
/// access yields an element iff an element introduced by a correct separator follows (element
/// = abstract recogniser E through deserialize_ignored_any), signals the end iff `]` follows
/// (left for end_seq, which accepts exactly `]`), and fails otherwise.
#[kani::proof]
#[kani::unwind(9)]
#[kani::stub(crate::error::Error::syntax, crate::error::verif_kani_error::syntax_cut)]
#[kani::stub(crate::parser::Parser::skip_space, model_skip_space)]
#[kani::stub(crate::parser::Parser::skip_one, model_skip_one)]
fn m_seq_next_element_n6() {
    const N: usize = 6;
    let buf: [u8; N] = kani::any();
    let n: usize = kani::any();
    kani::assume(n <= N);
    setup_vals::<N>();
    let start: usize = kani::any();
    kani::assume(start <= n);
    let first0: bool = kani::any();
    let mut de = Deserializer::new(Read::new(&buf[..n], false));
    de.parser.read.set_index(start);
    let mut acc = SeqAccess { de: &mut de, first: first0 };
    let r = de::SeqAccess::next_element_seed(&mut acc, std::marker::PhantomData::<IgnoredAny>);
    let first_after = acc.first;
    let i = ref_skip_ws(&buf, n, start);
    // 0 = error, 1 = end, 2 = element ending at e
    let mut exp = (0u8, 0usize);
    if i < n {
        if buf[i] == b']' {
            exp = (1, i);
        } else {
            let mut at = i;
            let mut sep_ok = first0;
            if !first0 && buf[i] == b',' {
                at = ref_skip_ws(&buf, n, i + 1);
                sep_ok = true;
            }
            if sep_ok {
                if let Some(e) = unsafe { val_end(&buf, n, at) } {
                    exp = (2, e);
                }
            }
        }
    }
    match (&r, exp.0) {
        (Ok(None), 1) => {
            assert_eq!(de.parser.read.index(), exp.1);
            // the caller then requires `]`
            assert!(de.end_seq().is_ok());
            assert_eq!(de.parser.read.index(), exp.1 + 1);
        }
        (Ok(Some(_)), 2) => {
            assert_eq!(de.parser.read.index(), exp.1);
            assert!(!first_after);
        }
        (Err(_), 0) => {}
        _ => panic!("SeqAccess::next_element_seed differs from the array grammar"),
    }
    kani::cover!(exp.0 == 2 && !first0);
    kani::cover!(exp.0 == 2 && first0);
    kani::cover!(exp.0 == 1);
    kani::cover!(exp.0 == 0 && start < n && !first0);
    core::mem::forget(r);
    core::mem::forget(de);
}

/// C02 M-end: `end_seq`/`end_map` accept exactly optional whitespace + the closing bracket.
#[kani::proof]
#[kani::unwind(8)]
#[kani::stub(crate::error::Error::syntax, crate::error::verif_kani_error::syntax_cut)]
#[kani::stub(crate::parser::Parser::skip_space, model_skip_space)]
fn m_end_seq_map_n6() {
    const N: usize = 6;
    let buf: [u8; N] = kani::any();
    let n: usize = kani::any();
    kani::assume(n <= N);
    let start: usize = kani::any();
    kani::assume(start <= n);
    let map: bool = kani::any();
    let mut de = Deserializer::new(Read::new(&buf[..n], false));
    de.parser.read.set_index(start);
    let r = if map { de.end_map() } else { de.end_seq() };
    let i = ref_skip_ws(&buf, n, start);
    let ok = i < n && buf[i] == if map { b'}' } else { b']' };
    assert_eq!(r.is_ok(), ok);
    if ok {
        assert_eq!(de.parser.read.index(), i + 1);
    }
    kani::cover!(ok && map);
    kani::cover!(!ok && i < n);
    core::mem::forget(r);
    core::mem::forget(de);
}

// ---- M-stream-latch -----------------------------------------------------------------------------

/// C20 M-stream-latch: one step of StreamDeserializer::next from an arbitrary latch state:
/// once an error was yielded (or the latch is set) every later call yields None.
#[kani::proof]
#[kani::unwind(8)]
#[kani::stub(crate::error::Error::syntax, crate::error::verif_kani_error::syntax_cut)]
#[kani::stub(crate::parser::Parser::skip_space, model_skip_space)]
#[kani::stub(crate::parser::Parser::skip_one, model_skip_one)]
fn m_stream_latch_n5() {
    const N: usize = 5;
    let buf: [u8; N] = kani::any();
    let n: usize = kani::any();
    kani::assume(n <= N);
    setup_vals::<N>();
    let start: usize = kani::any();
    kani::assume(start <= n);
    let latched: bool = kani::any();
    let mut de = Deserializer::new(Read::new(&buf[..n], false));
    de.parser.read.set_index(start);
    let mut st: StreamDeserializer<'_, IgnoredAny, Read<'_>> = de.into_stream();
    st.is_ending = latched;
    let a = st.next();
    if latched {
        assert!(a.is_none());
        assert!(st.is_ending);
    } else {
        let a_err = matches!(&a, Some(Err(_)));
        assert!(a.is_some());
        assert_eq!(st.is_ending, a_err);
        // and the following call
        let b = st.next();
        if a_err {
            assert!(b.is_none());
        }
        kani::cover!(a_err);
        kani::cover!(!a_err && matches!(&b, Some(Ok(_))));
        core::mem::forget(b);
    }
    core::mem::forget(a);
    core::mem::forget(st);
}

/// C20 M-stream-latch-any: the same step when the item's own `Deserialize` decides the outcome:
/// success, or an error of *any* category (syntax, eof, type mismatch, not found) - a typed
/// stream must end after a type error too, not only after a syntax error.
struct Outcome;
impl<'de> de::Deserialize<'de> for Outcome {
    fn deserialize<D: de::Deserializer<'de>>(_d: D) -> std::result::Result<Self, D::Error> {
        let k: u8 = kani::any();
        kani::assume(k < 5);
        if k == 0 {
            return Ok(Outcome);
        }
        let code = match k {
            1 => ErrorCode::InvalidJsonValue,
            2 => ErrorCode::EofWhileParsing,
            3 => ErrorCode::UnexpectedVisitType,
            _ => ErrorCode::GetUnknownKeyInObject,
        };
        let e = core::mem::ManuallyDrop::new(crate::error::verif_kani_error::syntax_cut(code, &[], 0));
        // in this harness D::Error is crate::Error
        Err(unsafe { core::mem::transmute_copy::<core::mem::ManuallyDrop<Error>, D::Error>(&e) })
    }
}

#[kani::proof]
#[kani::unwind(4)]
fn m_stream_latch_any_outcome() {
    let latched: bool = kani::any();
    let de = Deserializer::new(Read::new(b"1 2 3", false));
    let mut st: StreamDeserializer<'_, Outcome, Read<'_>> = de.into_stream();
    st.is_ending = latched;
    let a = st.next();
    if latched {
        assert!(a.is_none());
    } else {
        let a_err = matches!(&a, Some(Err(_)));
        assert!(a.is_some());
        assert_eq!(st.is_ending, a_err);
        let b = st.next();
        if a_err {
            assert!(b.is_none());
        }
        kani::cover!(a_err);
        kani::cover!(!a_err && matches!(&b, Some(Err(_))));
        core::mem::forget(b);
    }
    core::mem::forget(a);
    core::mem::forget(st);
}

// ---- U-rawnumber --------------------------------------------------------------------------------

struct RawProbe;
static mut RAW_PTR: usize = 0;
static mut RAW_LEN: usize = 0;

impl<'de> de::Visitor<'de> for RawProbe {
    type Value = ();
    fn expecting(&self, _f: &mut std::fmt::Formatter) -> std::fmt::Result {
        Ok(())
    }
    fn visit_borrowed_str<E: de::Error>(self, v: &'de str) -> std::result::Result<(), E> {
        unsafe {
            RAW_PTR = v.as_ptr() as usize;
            RAW_LEN = v.len();
        }
        Ok(())
    }
}

fn model_skip_number<'de, R: Reader<'de>>(p: &mut Parser<R>, _first: u8) -> Result<&'de str> {
    let b = p.read.as_u8_slice();
    let n = b.len();
    let i = p.read.index() - 1;
    match ref_number_end(b, n, i) {
        Some(e) => {
            p.read.set_index(e);
            Ok(as_str(p.read.slice_unchecked(i, e)))
        }
        None => Err(crate::error::verif_kani_error::syntax_cut(ErrorCode::InvalidNumber, b, i)),
    }
}

/// C08 U-rawnumber: a raw number is captured from a bare or a quoted literal iff the text is a
/// grammatically valid JSON number (quoted: exactly the number between the quotes), and the
/// captured text is exactly that span.
#[kani::proof]
#[kani::unwind(10)]
#[kani::stub(crate::error::Error::syntax, crate::error::verif_kani_error::syntax_cut)]
#[kani::stub(crate::parser::Parser::skip_space, model_skip_space)]
#[kani::stub(crate::parser::Parser::skip_number, model_skip_number)]
fn u_deserialize_rawnumber_n7() {
    const N: usize = 7;
    let buf: [u8; N] = kani::any();
    let n: usize = kani::any();
    kani::assume(n <= N);
    let mut de = Deserializer::new(Read::new(&buf[..n], false));
    let r = de.deserialize_rawnumber(RawProbe);
    let i = ref_skip_ws(&buf, n, 0);
    let mut exp: Option<(usize, usize, usize)> = None; // (start, end of number, reader after)
    if i < n {
        if buf[i] == b'"' {
            let s = i + 1;
            if s < n && (buf[s] == b'-' || is_digit(buf[s])) {
                if let Some(e) = ref_number_end(&buf, n, s) {
                    if e < n && buf[e] == b'"' {
                        exp = Some((s, e, e + 1));
                    }
                }
            }
        } else if buf[i] == b'-' || is_digit(buf[i]) {
            if let Some(e) = ref_number_end(&buf, n, i) {
                exp = Some((i, e, e));
            }
        }
    }
    match (&r, exp) {
        (Ok(()), Some((s, e, after))) => {
            assert_eq!(unsafe { RAW_PTR }, buf.as_ptr() as usize + s);
            assert_eq!(unsafe { RAW_LEN }, e - s);
            assert_eq!(de.parser.read.index(), after);
        }
        (Err(_), None) => {}
        _ => panic!("deserialize_rawnumber differs from the number grammar"),
    }
    kani::cover!(matches!(exp, Some((s, _, _)) if s > 0 && buf[s - 1] == b'"'));
    kani::cover!(matches!(exp, Some((0, e, _)) if e == N));
    kani::cover!(exp.is_none() && n == N && buf[0] == b'"');
    core::mem::forget(r);
    core::mem::forget(de);
}

// ---- M-map: one step of MapAccess::next_key_seed + next_value_seed ---------------------------------

static mut STR_END_T: [u8; 13] = [0; 13];
static mut STR_ESC_T: [bool; 13] = [false; 13];

fn setup_strings<const N: usize>(b: &[u8; N], n: usize) {
    unsafe {
        let mut i = 0;
        while i <= N {
            let j = if i < n { i } else { n };
            match ref_string_end(b, n, j) {
                Some(e) => {
                    STR_END_T[i] = e as u8;
                    STR_ESC_T[i] = ref_has_backslash(b, j, e);
                }
                None => STR_END_T[i] = 0,
            }
            i += 1;
        }
    }
}

/// parse_str restricted to escape-free keys (justified by u_parse_string_raw_borrowed_n8)
fn model_parse_str<'de, 'own, R: Reader<'de>>(
    p: &mut Parser<R>,
    _buf: &'own mut Vec<u8>,
) -> Result<Reference<'de, 'own, str>> {
    let b = p.read.as_u8_slice();
    let n = b.len();
    let i = p.read.index();
    let e = if i <= n { unsafe { STR_END_T[i] as usize } } else { 0 };
    if e > i && e <= n {
        kani::assume(!unsafe { STR_ESC_T[i] });
        p.read.set_index(e);
        Ok(Reference::Borrowed(as_str(p.read.slice_unchecked(i, e - 1))))
    } else {
        p.read.set_index(n);
        Err(crate::error::verif_kani_error::syntax_cut(ErrorCode::InvalidJsonValue, b, i))
    }
}

/// C02 M-map: from every (first, position) in every buffer of length <= N the serde map access
/// yields a key iff a member introduced by a correct separator follows (a trailing comma before
/// `}` is an error), then the value after a colon (abstract recogniser E), signals the end iff
/// `}` follows (left for end_map), and fails otherwise.
#[kani::proof]
#[kani::unwind(10)]
#[kani::stub(crate::error::Error::syntax, crate::error::verif_kani_error::syntax_cut)]
#[kani::stub(crate::parser::Parser::skip_space, model_skip_space)]
#[kani::stub(crate::parser::Parser::skip_one, model_skip_one)]
#[kani::stub(crate::parser::Parser::parse_str, model_parse_str)]
fn m_map_next_entry_n8() {
    const N: usize = 8;
    let buf: [u8; N] = kani::any();
    let n: usize = kani::any();
    kani::assume(n <= N);
    setup_vals::<N>();
    setup_strings(&buf, n);
    let start: usize = kani::any();
    kani::assume(start <= n);
    let first0: bool = kani::any();
    let mut de = Deserializer::new(Read::new(&buf[..n], false));
    de.parser.read.set_index(start);
    let mut acc = MapAccess { de: &mut de, first: first0 };
    let k = de::MapAccess::next_key_seed(&mut acc, std::marker::PhantomData::<IgnoredAny>);
    // reference for the key step: 0 = error, 1 = end at i, 2 = key ending at ke
    let i = ref_skip_ws(&buf, n, start);
    let mut exp = (0u8, 0usize);
    if i < n {
        if buf[i] == b'}' {
            exp = (1, i);
        } else {
            let mut at = i;
            let mut sep_ok = first0;
            if !first0 && buf[i] == b',' {
                at = ref_skip_ws(&buf, n, i + 1);
                sep_ok = true;
            }
            if sep_ok && at < n && buf[at] == b'"' {
                let e = unsafe { STR_END_T[at + 1] as usize };
                if e > at + 1 && e <= n {
                    exp = (2, e);
                }
            }
        }
    }
    match (&k, exp.0) {
        (Ok(None), 1) => {
            assert_eq!(acc.de.parser.read.index(), exp.1);
        }
        (Ok(Some(_)), 2) => {
            assert_eq!(acc.de.parser.read.index(), exp.1);
            assert!(!acc.first);
            // value step: colon, then one value by E
            let v = de::MapAccess::next_value_seed(&mut acc, std::marker::PhantomData::<IgnoredAny>);
            let c = ref_skip_ws(&buf, n, exp.1);
            let mut vexp: Option<usize> = None;
            if c < n && buf[c] == b':' {
                let vs = ref_skip_ws(&buf, n, c + 1);
                vexp = unsafe { val_end(&buf, n, vs) };
            }
            match (&v, vexp) {
                (Ok(_), Some(ve)) => assert_eq!(acc.de.parser.read.index(), ve),
                (Err(_), None) => {}
                _ => panic!("MapAccess::next_value_seed differs from the member grammar"),
            }
            kani::cover!(v.is_ok());
            kani::cover!(v.is_err());
            core::mem::forget(v);
        }
        (Err(_), 0) => {}
        _ => panic!("MapAccess::next_key_seed differs from the object grammar"),
    }
    kani::cover!(exp.0 == 2 && !first0);
    kani::cover!(exp.0 == 1);
    kani::cover!(exp.0 == 0 && !first0 && start < n && i < n && buf[i] == b',');
    core::mem::forget(k);
    core::mem::forget(de);
}
