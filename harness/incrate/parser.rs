//! Harnesses living inside `crate::parser` (child module: calls the private scanners directly).
//! The functions under test are the real ones, compiled from /repo's current parser.rs.
use super::*;
use crate::{reader::Read, verif_refs::*};

type P<'a> = Parser<Read<'a>>;

fn mk<'a>(b: &'a [u8]) -> P<'a> {
    Parser::new(Read::new(b, false))
}

// ---------------------------------------------------------------------------------------------
// K: bit kernels
// ---------------------------------------------------------------------------------------------

/// Scalar definition of "which positions are escaped by a preceding odd run of backslashes".
fn ref_escaped_bits(bs: u64, prev: bool, width: u32) -> (u64, bool) {
    let mut e: u64 = 0;
    let mut pending = prev;
    let mut i = 0;
    while i < width {
        let is_bs = (bs >> i) & 1 == 1;
        if pending {
            e |= 1u64 << i;
            pending = false;
        } else if is_bs {
            pending = true;
        }
        i += 1;
    }
    (e, pending)
}

/// C10 K-escaped: all 2^65 inputs.
#[kani::proof]
fn k_escaped_u64() {
    let mut prev: u64 = kani::any();
    kani::assume(prev <= 1);
    let bs: u64 = kani::any();
    let p0 = prev == 1;
    let esc = get_escaped_branchless_u64(&mut prev, bs);
    let (e, pending) = ref_escaped_bits(bs, p0, 64);
    assert_eq!(esc, e);
    assert_eq!(prev, pending as u64);
    kani::cover!(pending && p0);
}

/// C10 K-escaped (32-bit variant used by skip_string_unchecked): all 2^33 inputs.
#[kani::proof]
fn k_escaped_u32() {
    let mut prev: u32 = kani::any();
    kani::assume(prev <= 1);
    let bs: u32 = kani::any();
    let p0 = prev == 1;
    let esc = get_escaped_branchless_u32(&mut prev, bs);
    let (e, pending) = ref_escaped_bits(bs as u64, p0, 32);
    assert_eq!(esc as u64, e);
    assert_eq!(prev, pending as u32);
    kani::cover!(pending && p0);
}

#[kani::proof]
fn k_is_whitespace() {
    let c: u8 = kani::any();
    assert_eq!(is_whitespace(c), is_ws(c));
}

// ---------------------------------------------------------------------------------------------
// U: scanners over a symbolic buffer
// ---------------------------------------------------------------------------------------------

/// C02/C14/C09 U-skip_string: for every byte string of length <= N placed after an opening
/// quote, the validating string skipper accepts iff the RFC 8259 string grammar does, stops
/// exactly after the closing quote, and reports HasEscaped iff the literal has a backslash.
fn skip_string_body<const N: usize>() {
    let buf: [u8; N] = kani::any();
    let n: usize = kani::any();
    kani::assume(n <= N);
    let mut p = mk(&buf[..n]);
    let r = p.skip_string();
    let expect = ref_string_end(&buf, n, 0);
    match (&r, expect) {
        (Ok(st), Some(end)) => {
            assert_eq!(p.read.index(), end);
            assert_eq!(*st == ParseStatus::HasEscaped, ref_has_backslash(&buf, 0, end));
        }
        (Err(_), None) => {}
        _ => panic!("skip_string: accept/reject differs from the RFC 8259 string grammar"),
    }
    kani::cover!(r.is_ok() && n == N);
    kani::cover!(matches!(&r, Ok(ParseStatus::HasEscaped)));
    kani::cover!(r.is_err());
    core::mem::forget(r);
}

#[kani::proof]
#[kani::unwind(10)]
#[kani::stub(crate::error::Error::syntax, crate::error::verif_kani_error::syntax_cut)]
fn u_skip_string_n8() {
    skip_string_body::<8>();
}

#[kani::proof]
#[kani::unwind(8)]
#[kani::stub(crate::error::Error::syntax, crate::error::verif_kani_error::syntax_cut)]
fn u_skip_string_n6() {
    skip_string_body::<6>();
}

/// C02/C08/C14 U-skip_number: for every byte string of length <= N whose first byte is `-` or
/// a digit, the validating number skipper accepts iff the RFC 8259 number grammar (greedy
/// reading) does and stops exactly after the number.
fn skip_number_body<const N: usize>() {
    let buf: [u8; N] = kani::any();
    let n: usize = kani::any();
    kani::assume(n >= 1 && n <= N);
    let first = buf[0];
    kani::assume(first == b'-' || is_digit(first));
    let mut p = mk(&buf[..n]);
    p.read.eat(1);
    let r = p.do_skip_number(first);
    let expect = ref_number_end(&buf, n, 0);
    match (&r, expect) {
        (Ok(()), Some(end)) => assert_eq!(p.read.index(), end),
        (Err(_), None) => {}
        _ => panic!("do_skip_number: accept/reject differs from the RFC 8259 number grammar"),
    }
    kani::cover!(r.is_ok() && p.read.index() == N);
    kani::cover!(r.is_ok() && p.read.index() < n);
    kani::cover!(r.is_err());
    core::mem::forget(r);
}

#[kani::proof]
#[kani::unwind(7)]
#[kani::stub(crate::error::Error::syntax, crate::error::verif_kani_error::syntax_cut)]
fn u_skip_number_n5() {
    skip_number_body::<5>();
}

#[kani::proof]
#[kani::unwind(8)]
#[kani::stub(crate::error::Error::syntax, crate::error::verif_kani_error::syntax_cut)]
fn u_skip_number_n6() {
    skip_number_body::<6>();
}

#[kani::proof]
#[kani::unwind(10)]
#[kani::stub(crate::error::Error::syntax, crate::error::verif_kani_error::syntax_cut)]
fn u_skip_number_n8() {
    skip_number_body::<8>();
}

/// C02/C10 U-skip_space: from every start index in every buffer of length <= N, skip_space
/// returns the first non-whitespace byte at or after the index and leaves the reader just
/// after it, or returns None at the end (reader at the end).
fn skip_space_body<const N: usize>() {
    let buf: [u8; N] = kani::any();
    let n: usize = kani::any();
    kani::assume(n <= N);
    let start: usize = kani::any();
    kani::assume(start <= n);
    let mut p = mk(&buf[..n]);
    p.read.set_index(start);
    let r = p.skip_space();
    let j = ref_skip_ws(&buf, n, start);
    if j < n {
        assert_eq!(r, Some(buf[j]));
        assert_eq!(p.read.index(), j + 1);
    } else {
        assert_eq!(r, None);
        assert_eq!(p.read.index(), n);
    }
    kani::cover!(r.is_some() && j > start + 2);
    kani::cover!(r.is_none() && start < n);
}

#[kani::proof]
#[kani::unwind(8)]
fn u_skip_space_n6() {
    skip_space_body::<6>();
}

/// C02 U-literal: `parse_literal` (reader just after the first byte) accepts exactly the rest
/// of the literal and advances by its length; used for true/false/null by every scanner.
#[kani::proof]
#[kani::unwind(7)]
#[kani::stub(crate::error::Error::syntax, crate::error::verif_kani_error::syntax_cut)]
fn u_literal_n6() {
    const N: usize = 6;
    let buf: [u8; N] = kani::any();
    let n: usize = kani::any();
    kani::assume(n >= 1 && n <= N);
    let first = buf[0];
    kani::assume(first == b't' || first == b'f' || first == b'n');
    let mut p = mk(&buf[..n]);
    p.read.eat(1);
    let rest = match first {
        b't' => "rue",
        b'f' => "alse",
        _ => "ull",
    };
    let r = p.parse_literal(rest);
    let expect = ref_literal_end(&buf, n, 0);
    match (&r, expect) {
        (Ok(()), Some(end)) => assert_eq!(p.read.index(), end),
        (Err(_), None) => {}
        _ => panic!("parse_literal differs from the literal grammar"),
    }
    kani::cover!(r.is_ok());
    kani::cover!(r.is_err());
    core::mem::forget(r);
}

/// C10 U-skip_string_unchecked: on every well-formed literal of length <= N (followed by
/// arbitrary bytes) the trusting skipper stops exactly after the closing quote and reports
/// HasEscaped iff the literal contains a backslash.
fn skip_string_unchecked_body<const N: usize>() {
    let buf: [u8; N] = kani::any();
    let n: usize = kani::any();
    kani::assume(n <= N);
    // precondition of the unchecked API: the input starts with a well-formed literal
    let end = ref_string_end(&buf, n, 0);
    kani::assume(end.is_some());
    let end = end.unwrap();
    let mut p = mk(&buf[..n]);
    let r = unsafe { p.skip_string_unchecked() };
    match &r {
        Ok(st) => {
            assert_eq!(p.read.index(), end);
            assert_eq!(*st == ParseStatus::HasEscaped, ref_has_backslash(&buf, 0, end));
        }
        Err(_) => panic!("skip_string_unchecked rejects a well-formed literal"),
    }
    kani::cover!(end == N);
    kani::cover!(end < n && ref_has_backslash(&buf, 0, end));
    core::mem::forget(r);
}

#[kani::proof]
#[kani::unwind(10)]
#[kani::stub(crate::error::Error::syntax, crate::error::verif_kani_error::syntax_cut)]
fn u_skip_string_unchecked_n8() {
    skip_string_unchecked_body::<8>();
}

/// C12/C13/C10 U-skip_number_unchecked: on a well-formed number followed by blanks and then a
/// separator (or the end of the input), the trusting value skipper returns exactly the number's
/// source span - no blank of what follows belongs to it (F14: `[1 , 2 ]` yielded "1 ") - and
/// leaves the reader at the end of that span.
#[kani::proof]
#[kani::unwind(9)]
#[kani::stub(crate::error::Error::syntax, crate::error::verif_kani_error::syntax_cut)]
fn u_skip_number_unchecked_span_n7() {
    const N: usize = 7;
    let buf: [u8; N] = kani::any();
    let n: usize = kani::any();
    kani::assume(n >= 1 && n <= N);
    // precondition of the unchecked API: well-formed input
    let end = ref_number_end(&buf, n, 0);
    kani::assume(end.is_some());
    let e = end.unwrap();
    let after = ref_skip_ws(&buf, n, e);
    kani::assume(after == n || buf[after] == b',' || buf[after] == b']' || buf[after] == b'}');
    // skip_one_unchecked has consumed the first character and dispatched on it (the other arms
    // of that dispatch - containers, strings - are kept out of this harness)
    let mut p = mk(&buf[..n]);
    p.read.set_index(1);
    let r = p.skip_number_unsafe();
    assert!(r.is_ok());
    assert_eq!(p.read.index(), e);
    kani::cover!(after > e && after < n);
    kani::cover!(e == n);
    kani::cover!(e >= 3 && after == e && after < n);
    core::mem::forget(r);
}

/// C10 U-get_next_token: finds the first occurrence of any token at or after the reader and
/// leaves the reader `advance` bytes after it; None iff there is none (reader at the end).
#[kani::proof]
#[kani::unwind(8)]
fn u_get_next_token_n6() {
    const N: usize = 6;
    let buf: [u8; N] = kani::any();
    let n: usize = kani::any();
    kani::assume(n <= N);
    let start: usize = kani::any();
    kani::assume(start <= n);
    let adv: usize = kani::any();
    kani::assume(adv <= 1);
    let mut p = mk(&buf[..n]);
    p.read.set_index(start);
    let r = p.get_next_token([b'"', b'}'], adv);
    let mut j = start;
    while j < n && buf[j] != b'"' && buf[j] != b'}' {
        j += 1;
    }
    if j < n {
        assert_eq!(r, Some(buf[j]));
        assert_eq!(p.read.index(), j + adv);
    } else {
        assert_eq!(r, None);
        assert_eq!(p.read.index(), n);
    }
    kani::cover!(r.is_some() && j > start);
    kani::cover!(r.is_none() && start < n);
}

/// C02 U-trailing: after a value ends at `start`, `parse_trailing` accepts iff only whitespace
/// follows (plain bounds-checked reader).
#[kani::proof]
#[kani::unwind(8)]
#[kani::stub(crate::error::Error::syntax, crate::error::verif_kani_error::syntax_cut)]
fn u_parse_trailing_n6() {
    const N: usize = 6;
    let buf: [u8; N] = kani::any();
    let n: usize = kani::any();
    kani::assume(n <= N);
    let start: usize = kani::any();
    kani::assume(start <= n);
    let mut p = mk(&buf[..n]);
    p.read.set_index(start);
    let r = p.parse_trailing();
    let only_ws = ref_skip_ws(&buf, n, start) == n;
    assert_eq!(r.is_ok(), only_ws);
    kani::cover!(r.is_ok() && start < n);
    kani::cover!(r.is_err());
    core::mem::forget(r);
}

/// C02 U-colon: `parse_object_clo` accepts iff optional whitespace and a colon follow, and
/// leaves the reader just after the colon.
#[kani::proof]
#[kani::unwind(8)]
#[kani::stub(crate::error::Error::syntax, crate::error::verif_kani_error::syntax_cut)]
fn u_parse_object_clo_n6() {
    const N: usize = 6;
    let buf: [u8; N] = kani::any();
    let n: usize = kani::any();
    kani::assume(n <= N);
    let start: usize = kani::any();
    kani::assume(start <= n);
    let mut p = mk(&buf[..n]);
    p.read.set_index(start);
    let r = p.parse_object_clo();
    let j = ref_skip_ws(&buf, n, start);
    let ok = j < n && buf[j] == b':';
    assert_eq!(r.is_ok(), ok);
    if ok {
        assert_eq!(p.read.index(), j + 1);
    }
    kani::cover!(r.is_ok() && j > start);
    kani::cover!(r.is_err());
    core::mem::forget(r);
}

// ---------------------------------------------------------------------------------------------
// M: callers verified against the *contract* of their callees.
//
// The nested value skipper is replaced by an abstract element recogniser E given as a symbolic
// table: if a value starts at position i (after optional whitespace) then E either rejects
// (ELEM_END[i] == 0) or accepts and ends at ELEM_END[i] (i < end <= n). E is arbitrary except
// that it rejects at positions whose byte cannot start a JSON value. The caller is then
// compared with the grammar production instantiated with the same E, for *every* E: this is
// the inductive step "if nested values are recognised correctly, so is this container".
// ---------------------------------------------------------------------------------------------

const TN: usize = 12;
static mut ELEM_END: [u8; TN] = [0; TN];
static mut ELEM_ESC: [bool; TN] = [false; TN];
static mut INPUT_LEN: usize = 0;
// Precomputed once per harness run so that the contract models and the grammar productions are
// loop-free inside the (unrolled) loop of the function under test:
// WS_NEXT[i] = first index >= i that holds a non-whitespace byte (or n),
// STR_END[i] = index after the closing quote of the string body starting at i (0 = malformed).
static mut WS_NEXT: [u8; TN + 1] = [0; TN + 1];
static mut STR_END: [u8; TN + 1] = [0; TN + 1];
static mut STR_ESC: [bool; TN + 1] = [false; TN + 1];

unsafe fn ws_next(i: usize) -> usize {
    if i >= INPUT_LEN {
        INPUT_LEN
    } else {
        WS_NEXT[i] as usize
    }
}

unsafe fn str_end(i: usize) -> Option<usize> {
    if i > INPUT_LEN {
        return None;
    }
    let e = STR_END[i] as usize;
    if e == 0 {
        None
    } else {
        Some(e)
    }
}

unsafe fn precompute<const N: usize>(b: &[u8; N], n: usize, strings: bool) {
    INPUT_LEN = n;
    let mut i = 0;
    while i <= N {
        WS_NEXT[i] = ref_skip_ws(b, n, if i < n { i } else { n }) as u8;
        if strings {
            match ref_string_end(b, n, if i < n { i } else { n }) {
                Some(e) => {
                    STR_END[i] = e as u8;
                    STR_ESC[i] = ref_has_backslash(b, i, e);
                }
                None => STR_END[i] = 0,
            }
        }
        i += 1;
    }
}
static mut NESTED_DEPTH_SEEN: u8 = 0;
static mut NESTED_CALLS: u8 = 0;

unsafe fn elem_lookup(b: &[u8], n: usize, i: usize) -> Option<usize> {
    if i >= n || !is_value_start(b[i]) {
        return None;
    }
    let e = ELEM_END[i] as usize;
    if e > i && e <= n {
        Some(e)
    } else {
        None
    }
}

/// Contract model of `skip_one`: skip whitespace, then recognise one element by E.
fn model_skip_one<'de, R>(p: &mut Parser<R>) -> Result<(&'de [u8], ParseStatus)>
where
    R: Reader<'de>,
{
    unsafe {
        NESTED_CALLS = NESTED_CALLS.wrapping_add(1);
        NESTED_DEPTH_SEEN = p.remaining_depth;
    }
    let b = p.read.as_u8_slice();
    let n = b.len();
    let i = unsafe { ws_next(p.read.index()) };
    match unsafe { elem_lookup(b, n, i) } {
        Some(e) => {
            p.read.set_index(e);
            let st = if unsafe { ELEM_ESC[i] } {
                ParseStatus::HasEscaped
            } else {
                ParseStatus::None
            };
            Ok((p.read.slice_unchecked(i, e), st))
        }
        None => {
            p.read.set_index(if i < n { i + 1 } else { n });
            Err(crate::error::verif_kani_error::syntax_cut(InvalidJsonValue, b, i))
        }
    }
}

/// Grammar production for the rest of an array after `[` with element recogniser E.
unsafe fn ref_array_rest(b: &[u8], n: usize, mut i: usize) -> Option<usize> {
    i = ws_next(i);
    if i < n && b[i] == b']' {
        return Some(i + 1);
    }
    loop {
        i = ws_next(i);
        i = elem_lookup(b, n, i)?;
        i = ws_next(i);
        if i >= n {
            return None;
        }
        if b[i] == b']' {
            return Some(i + 1);
        }
        if b[i] != b',' {
            return None;
        }
        i += 1;
    }
}

/// Grammar production for the rest of an object after `{` with element recogniser E
/// (keys are real string literals).
unsafe fn ref_object_rest(b: &[u8], n: usize, mut i: usize) -> Option<usize> {
    i = ws_next(i);
    if i < n && b[i] == b'}' {
        return Some(i + 1);
    }
    loop {
        i = ws_next(i);
        if i >= n || b[i] != b'"' {
            return None;
        }
        i = str_end(i + 1)?;
        i = ws_next(i);
        if i >= n || b[i] != b':' {
            return None;
        }
        i = ws_next(i + 1);
        i = elem_lookup(b, n, i)?;
        i = ws_next(i);
        if i >= n {
            return None;
        }
        if b[i] == b'}' {
            return Some(i + 1);
        }
        if b[i] != b',' {
            return None;
        }
        i += 1;
    }
}

fn setup_table<const N: usize>(n: usize) {
    let t: [u8; N] = kani::any();
    let e: [bool; N] = kani::any();
    unsafe {
        let mut k = 0;
        while k < N {
            ELEM_END[k] = t[k];
            ELEM_ESC[k] = e[k];
            k += 1;
        }
        INPUT_LEN = n;
        NESTED_CALLS = 0;
    }
}

/// Contract model of `skip_space`. Justified by u_skip_space_n6 (real skip_space == this model on
/// all buffers <= 6 x all start indices; the 64-byte block path is decided separately).
fn model_skip_space<'de, R>(p: &mut Parser<R>) -> Option<u8>
where
    R: Reader<'de>,
{
    let b = p.read.as_u8_slice();
    let n = b.len();
    let j = unsafe { ws_next(p.read.index()) };
    if j < n {
        p.read.set_index(j + 1);
        Some(b[j])
    } else {
        p.read.set_index(n);
        None
    }
}

/// Contract model of `skip_string` (reader just after the opening quote): the RFC 8259 string
/// recogniser. Justified by u_skip_string_n8 (real skip_string == this model on all buffers <= 8).
fn model_skip_string<'de, R>(p: &mut Parser<R>) -> Result<ParseStatus>
where
    R: Reader<'de>,
{
    let b = p.read.as_u8_slice();
    let n = b.len();
    let i = p.read.index();
    match unsafe { str_end(i) } {
        Some(e) => {
            p.read.set_index(e);
            Ok(if unsafe { STR_ESC[i] } {
                ParseStatus::HasEscaped
            } else {
                ParseStatus::None
            })
        }
        None => {
            p.read.set_index(n);
            Err(crate::error::verif_kani_error::syntax_cut(InvalidJsonValue, b, i))
        }
    }
}

/// C02/C14 M-skip_array: reader just after `[`.
#[kani::proof]
#[kani::unwind(8)]
#[kani::stub(crate::error::Error::syntax, crate::error::verif_kani_error::syntax_cut)]
#[kani::stub(Parser::skip_one, model_skip_one)]
#[kani::stub(Parser::skip_space, model_skip_space)]
fn m_skip_array_n6() {
    const N: usize = 6;
    let buf: [u8; N] = kani::any();
    let n: usize = kani::any();
    kani::assume(n <= N);
    setup_table::<N>(n);
    unsafe { precompute(&buf, n, false) };
    let mut p = mk(&buf[..n]);
    let r = p.skip_array();
    let expect = unsafe { ref_array_rest(&buf, n, 0) };
    match (&r, expect) {
        (Ok(()), Some(end)) => assert_eq!(p.read.index(), end),
        (Err(_), None) => {}
        _ => panic!("skip_array differs from the array production"),
    }
    kani::cover!(r.is_ok() && unsafe { NESTED_CALLS } >= 2);
    kani::cover!(r.is_ok() && unsafe { NESTED_CALLS } == 0);
    kani::cover!(r.is_err() && unsafe { NESTED_CALLS } >= 1);
    core::mem::forget(r);
}

/// C02/C14 M-skip_object: reader just after `{`.
fn skip_object_body<const N: usize>() {
    let buf: [u8; N] = kani::any();
    let n: usize = kani::any();
    kani::assume(n <= N);
    setup_table::<N>(n);
    unsafe { precompute(&buf, n, true) };
    let mut p = mk(&buf[..n]);
    let r = p.skip_object();
    let expect = unsafe { ref_object_rest(&buf, n, 0) };
    match (&r, expect) {
        (Ok(()), Some(end)) => assert_eq!(p.read.index(), end),
        (Err(_), None) => {}
        _ => panic!("skip_object differs from the object production"),
    }
    kani::cover!(r.is_ok() && unsafe { NESTED_CALLS } >= 1);
    kani::cover!(r.is_ok() && unsafe { NESTED_CALLS } == 0);
    kani::cover!(r.is_err() && unsafe { NESTED_CALLS } >= 1);
    core::mem::forget(r);
}

#[kani::proof]
#[kani::unwind(8)]
#[kani::stub(crate::error::Error::syntax, crate::error::verif_kani_error::syntax_cut)]
#[kani::stub(Parser::skip_one, model_skip_one)]
#[kani::stub(Parser::skip_string, model_skip_string)]
#[kani::stub(Parser::skip_space, model_skip_space)]
fn m_skip_object_n6() {
    skip_object_body::<6>();
}

#[kani::proof]
#[kani::unwind(9)]
#[kani::stub(crate::error::Error::syntax, crate::error::verif_kani_error::syntax_cut)]
#[kani::stub(Parser::skip_one, model_skip_one)]
#[kani::stub(Parser::skip_string, model_skip_string)]
#[kani::stub(Parser::skip_space, model_skip_space)]
fn m_skip_object_n7() {
    skip_object_body::<7>();
}

// ---------------------------------------------------------------------------------------------
// K-block: one 64-byte step of the bitmap container skipper from an arbitrary carry state
// ---------------------------------------------------------------------------------------------

/// Scalar bracket/quote/escape machine (the definition of what the bitmap step computes).
fn ref_block_step(
    d: &[u8; 64],
    mut in_str: bool,
    mut esc: bool,
    mut l: usize,
    mut r: usize,
    left: u8,
    right: u8,
) -> (Option<u8>, bool, bool, usize, usize) {
    let mut i = 0;
    while i < 64 {
        let c = d[i];
        if esc {
            esc = false;
        } else if c == b'\\' {
            // precondition of the trusting skipper: backslashes occur only inside strings
            kani::assume(in_str);
            esc = true;
        } else if c == b'"' {
            in_str = !in_str;
        } else if !in_str {
            if c == left {
                l += 1;
            } else if c == right {
                r += 1;
                if r > l {
                    return (Some(i as u8 + 1), in_str, esc, l, r);
                }
            }
        }
        i += 1;
    }
    (None, in_str, esc, l, r)
}

/// C10 K-block: for every carry state (inside/outside a string, pending escape, open/close
/// counters) and every 64-byte block whose bytes are symbolic in a 16-byte window at OFF and
/// neutral elsewhere, `skip_container_loop` returns exactly what the scalar machine returns
/// and leaves exactly its carry state (inductive step => any number of blocks).
fn block_step_body<const OFF: usize>(left: u8, right: u8) {
    let w: [u8; 16] = kani::any();
    let mut d = [b'x'; 64];
    let mut k = 0;
    while k < 16 {
        d[OFF + k] = w[k];
        k += 1;
    }
    let in_str: bool = kani::any();
    let esc: bool = kani::any();
    let l0: usize = kani::any();
    let r0: usize = kani::any();
    kani::assume(l0 < (1 << 20) && r0 <= l0);
    kani::assume(in_str || !esc);
    // the reference runs first: its assumptions (no stray backslash) must precede the code they constrain
    let (exp, e_in, e_esc, e_l, e_r) = ref_block_step(&d, in_str, esc, l0, r0, left, right);
    let mut prev_instring: u64 = if in_str { u64::MAX } else { 0 };
    let mut prev_escaped: u64 = esc as u64;
    let mut l = l0;
    let mut r = r0;
    let got = skip_container_loop(&d, &mut prev_instring, &mut prev_escaped, &mut l, &mut r, left, right);
    assert_eq!(got.map(|x| x.get()), exp);
    if exp.is_none() {
        assert_eq!(prev_instring, if e_in { u64::MAX } else { 0 });
        assert_eq!(prev_escaped, e_esc as u64);
        assert_eq!(l, e_l);
        assert_eq!(r, e_r);
    }
    kani::cover!(exp.is_some() && in_str);
    // a pending escape at the end of the block needs the window to reach byte 63
    kani::cover!(exp.is_none() && e_in && (e_esc || OFF + 16 < 64));
    kani::cover!(exp.is_none() && e_l > l0 + 2 && e_r > r0 + 1);
}

/// C10 K-block-head: the same step with only the first three bytes of the block symbolic: what
/// the carry-in (pending escape, inside a string) does to the first bytes of a block that may
/// contain no backslash of its own. Small enough for the quick tier.
fn block_step_head_body(left: u8, right: u8) {
    let w: [u8; 3] = kani::any();
    let mut d = [b'x'; 64];
    d[0] = w[0];
    d[1] = w[1];
    d[2] = w[2];
    let in_str: bool = kani::any();
    let esc: bool = kani::any();
    let l0: usize = kani::any();
    let r0: usize = kani::any();
    kani::assume(l0 < (1 << 20) && r0 <= l0);
    kani::assume(in_str || !esc);
    let (exp, e_in, e_esc, e_l, e_r) = ref_block_step(&d, in_str, esc, l0, r0, left, right);
    let mut prev_instring: u64 = if in_str { u64::MAX } else { 0 };
    let mut prev_escaped: u64 = esc as u64;
    let mut l = l0;
    let mut r = r0;
    let got = skip_container_loop(&d, &mut prev_instring, &mut prev_escaped, &mut l, &mut r, left, right);
    assert_eq!(got.map(|x| x.get()), exp);
    if exp.is_none() {
        assert_eq!(prev_instring, if e_in { u64::MAX } else { 0 });
        assert_eq!(prev_escaped, e_esc as u64);
        assert_eq!(l, e_l);
        assert_eq!(r, e_r);
    }
    kani::cover!(esc && w[0] == b'"' && exp.is_none() && e_in);
    kani::cover!(exp.is_some() && in_str);
    kani::cover!(exp.is_none() && !e_in && e_l > l0);
}

#[kani::proof]
#[kani::unwind(4)]
fn k_block_step_head_arr() {
    block_step_head_body(b'[', b']');
}

#[kani::proof]
#[kani::unwind(18)]
fn k_block_step_obj_w0() {
    block_step_body::<0>(b'{', b'}');
}

#[kani::proof]
#[kani::unwind(18)]
fn k_block_step_arr_w48() {
    block_step_body::<48>(b'[', b']');
}

#[kani::proof]
#[kani::unwind(18)]
fn k_block_step_arr_w16() {
    block_step_body::<16>(b'[', b']');
}

#[kani::proof]
#[kani::unwind(18)]
fn k_block_step_obj_w32() {
    block_step_body::<32>(b'{', b'}');
}

/// C10 U-skip_container-tail: on every buffer of length <= N that starts (after the already
/// consumed opening bracket) with the rest of a bracket-balanced container, the bitmap skipper
/// (zero-padded tail block) stops exactly after the matching closing bracket; EOF otherwise.
#[kani::proof]
#[kani::unwind(10)]
#[kani::stub(crate::error::Error::syntax, crate::error::verif_kani_error::syntax_cut)]
fn u_skip_container_tail_n8() {
    const N: usize = 8;
    let buf: [u8; N] = kani::any();
    let n: usize = kani::any();
    kani::assume(n <= N);
    // Precondition of the trusting skipper: a backslash occurs only inside a string (true of
    // every well-formed document). The scalar machine and the bitmap treat a stray backslash
    // before a quote differently, and neither reading matters for well-formed input.
    let mut in_s = false;
    let mut i = 0;
    while i < n {
        if in_s {
            if buf[i] == b'\\' {
                i += 1;
            } else if buf[i] == b'"' {
                in_s = false;
            }
        } else if buf[i] == b'"' {
            in_s = true;
        } else {
            kani::assume(buf[i] != b'\\');
        }
        i += 1;
    }
    let arr: bool = kani::any();
    let (left, right) = if arr { (b'[', b']') } else { (b'{', b'}') };
    let mut p = mk(&buf[..n]);
    let r = p.skip_container(left, right);
    let expect = ref_container_end(&buf, n, 0, left, right);
    match (&r, expect) {
        (Ok(()), Some(e)) => assert_eq!(p.read.index(), e),
        (Err(_), None) => {}
        _ => panic!("skip_container differs from the bracket machine"),
    }
    kani::cover!(r.is_ok() && p.read.index() == N);
    kani::cover!(r.is_err() && n == N);
    kani::cover!(r.is_ok() && p.read.index() >= 6 && buf[1] == b'\\');
    core::mem::forget(r);
}

// ---------------------------------------------------------------------------------------------
// B: block (SIMD) paths. The buffer has a concrete length > 32 so that the 32-byte loops run;
// bytes are neutral except in a symbolic window placed across a block edge. Loop bounds are
// given per loop (plan.py `unwindset`, resolved from `cbmc --show-loops` on every run).
// ---------------------------------------------------------------------------------------------

fn windowed<const N: usize, const W: usize>(off: usize, fill: u8) -> [u8; N] {
    let w: [u8; W] = kani::any();
    let mut d = [fill; N];
    let mut k = 0;
    while k < W {
        d[off + k] = w[k];
        k += 1;
    }
    d
}

/// C02/C09/C14 B-skip_string: 38-byte buffer after the opening quote, symbolic window of 6
/// bytes at offsets 29..35 (straddling the 32-byte block edge), a closing quote at 36.
#[kani::proof]
#[kani::unwind(3)]
#[kani::stub(crate::error::Error::syntax, crate::error::verif_kani_error::syntax_cut)]
#[kani::stub(core::arch::x86_64::_mm_max_epu8, crate::verif_kmodels::mm_max_epu8)]
fn b_skip_string_w29() {
    const N: usize = 38;
    let mut buf = windowed::<N, 6>(29, b'x');
    buf[36] = b'"';
    let mut p = mk(&buf[..]);
    let r = p.skip_string();
    let expect = ref_string_end(&buf, N, 0);
    match (&r, expect) {
        (Ok(st), Some(end)) => {
            assert_eq!(p.read.index(), end);
            assert_eq!(*st == ParseStatus::HasEscaped, ref_has_backslash(&buf, 0, end));
        }
        (Err(_), None) => {}
        _ => panic!("skip_string (block path): accept/reject differs from the RFC 8259 string grammar"),
    }
    kani::cover!(matches!(&r, Ok(ParseStatus::HasEscaped)) && p.read.index() == 37);
    kani::cover!(r.is_ok() && p.read.index() == 33);
    kani::cover!(r.is_err() && buf[31] == b'\\');
    core::mem::forget(r);
}

/// C10/C12 B-skip_string_unchecked: 64-byte buffer (two 32-byte blocks), symbolic window of 10
/// bytes at 27..37 across the block edge, an unescapable closing quote at 40: on every
/// well-formed literal the trusting skipper (with its escape carry between blocks) stops
/// exactly after the closing quote and reports HasEscaped iff a backslash occurs.
#[kani::proof]
#[kani::unwind(4)]
#[kani::stub(crate::error::Error::syntax, crate::error::verif_kani_error::syntax_cut)]
fn b_skip_string_unchecked_w27() {
    const N: usize = 64;
    let mut buf = windowed::<N, 10>(27, b'x');
    buf[40] = b'"';
    let end = ref_string_end(&buf, N, 0);
    kani::assume(end.is_some());
    let end = end.unwrap();
    let mut p = mk(&buf[..]);
    let r = unsafe { p.skip_string_unchecked() };
    match &r {
        Ok(st) => {
            assert_eq!(p.read.index(), end);
            assert_eq!(*st == ParseStatus::HasEscaped, ref_has_backslash(&buf, 0, end));
        }
        Err(_) => panic!("skip_string_unchecked (block path) rejects a well-formed literal"),
    }
    kani::cover!(end == 41 && buf[31] == b'\\' && buf[32] == b'"');
    kani::cover!(end == 41 && buf[30] == b'\\' && buf[31] == b'\\' && buf[32] != b'"');
    kani::cover!(end < 36);
    core::mem::forget(r);
}

/// C02/C14/C08 B-skip_number: 66-byte buffer of digits with a 6-byte symbolic window at 30..36
/// (lanes 28..31 of the first 32-byte chunk, which starts at index 2, and 0..1 of the next) and
/// a terminating comma at 44: accept/reject and stop index equal the number grammar.
#[kani::proof]
#[kani::unwind(3)]
#[kani::stub(crate::error::Error::syntax, crate::error::verif_kani_error::syntax_cut)]
fn b_skip_number_w30() {
    const N: usize = 66;
    let mut buf = windowed::<N, 6>(30, b'1');
    buf[44] = b',';
    let mut p = mk(&buf[..]);
    p.read.eat(1);
    let r = p.do_skip_number(buf[0]);
    let expect = ref_number_end(&buf, N, 0);
    match (&r, expect) {
        (Ok(()), Some(end)) => assert_eq!(p.read.index(), end),
        (Err(_), None) => {}
        _ => panic!("do_skip_number (block path): accept/reject differs from the RFC 8259 number grammar"),
    }
    kani::cover!(r.is_ok() && p.read.index() == 44 && buf[32] == b'.');
    kani::cover!(r.is_ok() && p.read.index() == 44 && buf[31] == b'.' && buf[34] == b'E');
    kani::cover!(r.is_err() && buf[32] == b'.' && buf[34] == b'.');
    kani::cover!(r.is_ok() && p.read.index() < 36);
    core::mem::forget(r);
}

/// C10/C12/C13 B-skip_string_unchecked (block then scalar tail): 40-byte buffer, window at
/// 27..37, closing quote at 38: the escape carry must survive from the 32-byte block into the
/// scalar tail.
#[kani::proof]
#[kani::unwind(4)]
#[kani::stub(crate::error::Error::syntax, crate::error::verif_kani_error::syntax_cut)]
fn b_skip_string_unchecked_tail_w27() {
    const N: usize = 40;
    let mut buf = windowed::<N, 10>(27, b'x');
    buf[38] = b'"';
    let end = ref_string_end(&buf, N, 0);
    kani::assume(end.is_some());
    let end = end.unwrap();
    let mut p = mk(&buf[..]);
    let r = unsafe { p.skip_string_unchecked() };
    match &r {
        Ok(st) => {
            assert_eq!(p.read.index(), end);
            assert_eq!(*st == ParseStatus::HasEscaped, ref_has_backslash(&buf, 0, end));
        }
        Err(_) => panic!("skip_string_unchecked (block + tail) rejects a well-formed literal"),
    }
    kani::cover!(end == 39 && buf[31] == b'\\' && buf[32] == b'"');
    kani::cover!(end == 39 && buf[30] == b'\\' && buf[31] == b'\\');
    kani::cover!(end < 34);
    core::mem::forget(r);
}

/// C02/C10/C01 B-skip_space: 80-byte buffer, two fixed leading spaces, a 10-byte symbolic window
/// at 2..12, neutral 'x' elsewhere: the first call takes the 64-byte block path and fills the
/// non-space bitmap cache, the second and third calls (from wherever the previous one stopped)
/// take the cached fast path; all three return the first non-whitespace byte at or after the
/// reader and leave the reader just after it.
#[kani::proof]
#[kani::unwind(3)]
fn b_skip_space_cache_w2() {
    const N: usize = 80;
    let mut buf = windowed::<N, 10>(2, b'x');
    buf[0] = b' ';
    buf[1] = b'\n';
    let mut p = mk(&buf[..]);
    let mut at = 0usize;
    let mut round = 0;
    while round < 3 {
        let r = p.skip_space();
        let j = ref_skip_ws(&buf, N, at);
        // the buffer ends with non-whitespace filler, so a byte is always found
        assert_eq!(r, Some(buf[j]));
        assert_eq!(p.read.index(), j + 1);
        at = j + 1;
        round += 1;
    }
    kani::cover!(at == 14);
    kani::cover!(at == 5 && buf[2] != b' ');
    kani::cover!(p.nospace_start == 2 && at > 8);
}

/// C10 B-get_next_token: 40-byte buffer, 8-byte symbolic window at 28..36 across the block edge,
/// neutral elsewhere, from start index 0: the token search (32-byte block then scalar tail)
/// finds the first occurrence of either token.
#[kani::proof]
#[kani::unwind(4)]
fn b_get_next_token_w28() {
    const N: usize = 40;
    let buf = windowed::<N, 8>(28, b'x');
    let adv: usize = kani::any();
    kani::assume(adv <= 1);
    let mut p = mk(&buf[..]);
    let r = p.get_next_token([b'"', b'}'], adv);
    let mut j = 0;
    while j < N && buf[j] != b'"' && buf[j] != b'}' {
        j += 1;
    }
    if j < N {
        assert_eq!(r, Some(buf[j]));
        assert_eq!(p.read.index(), j + adv);
    } else {
        assert_eq!(r, None);
        assert_eq!(p.read.index(), N);
    }
    kani::cover!(j == 31);
    kani::cover!(j == 32);
    kani::cover!(j == N);
}
