//! C17: backend source files that cfg never selects on this target (avx2.rs, v128.rs,
//! src/util/arch/x86_64.rs, sonic-number/src/arch/x86_64.rs) are #[path]-included from the
//! scratch copy of /repo next to the ones that are selected, so that two backends exist in one
//! binary and can be compared for all inputs in one query.
#![allow(non_camel_case_types, dead_code, unused_imports, clippy::all)]

#[path = "@SCRATCH_HARNESS@/common/kmodels.rs"]
mod kmodels;
#[path = "@SCRATCH_HARNESS@/common/intrinsics.rs"]
mod intrinsics;

/// portable backend: v128.rs + v256.rs (over v128) + v512.rs
pub mod portable {
    #[path = "@SCRATCH_REPO@/sonic-simd/src/traits.rs"]
    mod traits;
    pub use self::traits::{BitMask, Mask, Simd};
    #[path = "@SCRATCH_REPO@/sonic-simd/src/bits.rs"]
    pub mod bits;
    #[path = "@SCRATCH_REPO@/sonic-simd/src/v128.rs"]
    mod v128;
    use self::v128::*;
    #[path = "@SCRATCH_REPO@/sonic-simd/src/v256.rs"]
    mod v256;
    use self::v256::*;
    #[path = "@SCRATCH_REPO@/sonic-simd/src/v512.rs"]
    mod v512;
    use self::v512::*;
    pub type u8x16 = Simd128u;
    pub type u8x32 = Simd256u;
    pub type u8x64 = Simd512u;
    pub type i8x16 = Simd128i;
    pub type i8x32 = Simd256i;
    pub type i8x64 = Simd512i;
    pub type m8x32 = Mask256;
}

/// the backend cfg selects on a baseline x86-64 build: sse2.rs + v256.rs (over sse2) + v512.rs
pub mod baseline {
    #[path = "@SCRATCH_REPO@/sonic-simd/src/traits.rs"]
    mod traits;
    pub use self::traits::{BitMask, Mask, Simd};
    #[path = "@SCRATCH_REPO@/sonic-simd/src/bits.rs"]
    pub mod bits;
    #[path = "@SCRATCH_REPO@/sonic-simd/src/sse2.rs"]
    mod sse2;
    use self::sse2::*;
    #[path = "@SCRATCH_REPO@/sonic-simd/src/v256.rs"]
    mod v256;
    use self::v256::*;
    #[path = "@SCRATCH_REPO@/sonic-simd/src/v512.rs"]
    mod v512;
    use self::v512::*;
    pub type u8x16 = Simd128u;
    pub type u8x32 = Simd256u;
    pub type u8x64 = Simd512u;
    pub type i8x16 = Simd128i;
    pub type i8x32 = Simd256i;
    pub type i8x64 = Simd512i;
    pub type m8x32 = Mask256;
}

/// the backend a `-C target-cpu=native` build selects: sse2.rs + avx2.rs + v512.rs (over avx2)
pub mod native {
    #[path = "@SCRATCH_REPO@/sonic-simd/src/traits.rs"]
    mod traits;
    pub use self::traits::{BitMask, Mask, Simd};
    #[path = "@SCRATCH_REPO@/sonic-simd/src/bits.rs"]
    pub mod bits;
    #[path = "@SCRATCH_REPO@/sonic-simd/src/sse2.rs"]
    mod sse2;
    use self::sse2::*;
    #[path = "@SCRATCH_REPO@/sonic-simd/src/avx2.rs"]
    mod avx2;
    use self::avx2::*;
    #[path = "@SCRATCH_REPO@/sonic-simd/src/v512.rs"]
    mod v512;
    use self::v512::*;
    pub type u8x16 = Simd128u;
    pub type u8x32 = Simd256u;
    pub type u8x64 = Simd512u;
    pub type i8x16 = Simd128i;
    pub type i8x32 = Simd256i;
    pub type i8x64 = Simd512i;
    pub type m8x32 = Mask256;
}

pub mod arch_native {
    #[path = "@SCRATCH_REPO@/src/util/arch/x86_64.rs"]
    mod x86_64;
    pub use self::x86_64::*;
}

pub mod arch_fallback {
    #[path = "@SCRATCH_REPO@/src/util/arch/fallback.rs"]
    mod fallback;
    pub use self::fallback::*;
}

pub mod num_native {
    #[path = "@SCRATCH_REPO@/sonic-number/src/arch/x86_64.rs"]
    mod x86_64;
    pub use self::x86_64::*;
}

pub mod num_fallback {
    #[path = "@SCRATCH_REPO@/sonic-number/src/arch/fallback.rs"]
    mod fallback;
    pub use self::fallback::*;
}

#[cfg(kani)]
#[path = "@SCRATCH_HARNESS@/ext_harness.rs"]
mod harness;
