#!/usr/bin/env python3
"""Regenerate MANIFEST.json from plan.py / plan_claims.py (so that it can never drift from the plan)."""
import json, os, sys

VERIF = os.path.dirname(os.path.abspath(__file__))
sys.path.insert(0, VERIF)
import plan as PLAN
import plan_claims as PC

ALL = ["C%02d" % i for i in range(1, 21)]

checks = []
na = []
for pid in ALL:
    hs_q = PLAN.harnesses_for(pid, "quick")
    hs_t = PLAN.harnesses_for(pid, "thorough")
    if pid in PC.NOT_APPLICABLE or not hs_q:
        na.append({"property_id": pid, "reason": PC.NOT_APPLICABLE.get(pid, "no harness built for this property yet (see DESIGN.md)")})
        continue
    has_smt_q = any(h.crate == "smt" for h in hs_q)
    has_smt_t = any(h.crate == "smt" for h in hs_t)
    KANI_T = ("bounded model checking of the real Rust code: Kani 0.68 harnesses over kani::any() inputs, CBMC 6.11 + CaDiCaL verdict, "
              "unwinding assertions on, native concrete-playback replay")
    SMT_T = ("; the number pipeline of sonic-number by symbolic execution of the compiler's MIR (rustc -Zunpretty=mir of the current tree) into "
             "linear integer arithmetic decided by z3 5.1.0 / cvc5 1.0.3 - per decimal exponent / literal shape / (need, position), every "
             "other input symbolic - with native replay of every counterexample (smt/)")
    smt_note = ""
    if has_smt_q:
        smt_note = " Harnesses with crate 'smt' are SMT queries (linear integer arithmetic from the MIR), not CBMC queries."
    elif has_smt_t:
        smt_note = " The thorough tier adds SMT queries (linear integer arithmetic from the MIR) for the number pipeline."
    checks.append({
        "property_id": pid,
        "quick_cmd": "python3 /verif/run_check.py %s --tier quick" % pid,
        "thorough_cmd": "python3 /verif/run_check.py %s --tier thorough" % pid,
        "evidence_file": "/verif/evidence/%s.json" % pid,
        "replay_cmd_template": "python3 /verif/run_check.py --replay {path}",
        "engine": "kani-cbmc+mir-smt" if (has_smt_q or has_smt_t) else "kani-cbmc",
        "level_claimed": {
            "category": "model_checking",
            "text": PC.LEVEL_TEXT.get(pid, PC.DEFAULT_LEVEL_TEXT) + " (%d harnesses quick / %d thorough)" % (len(hs_q), len(hs_t)) + smt_note,
            "design_ref": "DESIGN.md section 5, " + pid,
        },
        "level_note": PC.LEVEL_NOTE.get(pid, PC.DEFAULT_LEVEL_NOTE) + (
            " For the 'smt' harnesses the trusted base is instead: rustc's MIR, the MIR operator semantics in smt/mir2smt.py (checked on every "
            "run by executing the same MIR concretely against exact rational arithmetic, and by native replay of every counterexample), z3 5.1.0 "
            "and cvc5 1.0.3 for `unsat`." if (has_smt_q or has_smt_t) else ""),
        "technique": KANI_T + (SMT_T if (has_smt_q or has_smt_t) else ""),
    })

manifest = {
    "version": 1,
    "setup_cmd": "cd /verif && ./setup.sh",
    "hooks": {
        "guard": "kani",
        "enable": "cargo kani sets --cfg kani; checks append `#[cfg(kani)] #[path=..] mod ..;` lines to a scratch copy of /repo (rsync of the current working tree), never to /repo itself",
        "baseline_off_cmd": "cd /repo && cargo test --workspace --no-fail-fast --offline",
        "source_commits": [],
        "add_only": True,
    },
    "engines": [
        {"name": "kani-cbmc", "path": "/verif/run_check.py", "serves_properties": [c["property_id"] for c in checks],
         "kind_free_text": "Kani 0.68 / CBMC 6.11 bounded model checker driven by run_check.py: regenerates the encoding from /repo on every run, one solver query per harness, parallel on 16 cores"},
        {"name": "kani-cbmc+mir-smt", "path": "/verif/run_check.py", "serves_properties": [c["property_id"] for c in checks if c["engine"] == "kani-cbmc+mir-smt"],
         "kind_free_text": "the same driver; plan entries with crate 'smt' run /verif/smt/{float_check,number_check,simd_check}.py: a symbolic executor over the MIR that the nightly compiler prints for /repo's current sonic-number (smt/mir2smt.py) emits QF_LIA queries for z3 5.1.0 and cvc5 1.0.3, one solver process per query; counterexamples are replayed natively (smt/replay, smt/replay_simd)"},
    ],
    "checks": checks,
    "not_applicable": na,
    "notes": ("Fix commits in /repo (unguarded, 'fix:' prefix) are listed in /verif/known_findings.json under 'fixed'; the one recorded "
              "finding (F6) is under 'findings'. Exit code 2 of a check means inconclusive (timeout, memory, unwinding bound, vacuity, "
              "instrumentation mismatch), never success."),
}
json.dump(manifest, open(os.path.join(VERIF, "MANIFEST.json"), "w"), indent=1)
print("MANIFEST.json: %d checks, %d not applicable" % (len(checks), len(na)))
