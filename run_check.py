#!/usr/bin/env python3
"""Decide one property of cloudwego/sonic-rs by bounded model checking of the real code.

usage: run_check.py <Cxx> [--tier quick|thorough]      (also honours VERIF_TIER / VERIF_SEED)
       run_check.py --dev <harness> [<harness> ...]      (development: run named harnesses)
       run_check.py --replay <file>                      (re-run a recorded counterexample natively)

exit 0  every harness of the property held within its stated bounds (known findings are
        printed as KNOWN-FINDING lines)
exit 1  a counterexample was found and reproduced; prints `VIOLATION property=<id> replay=<path>`
exit 2  inconclusive: timeout, out of memory, unwinding bound too small, vacuous harness,
        instrumentation mismatch, counterexample that does not reproduce
"""
import argparse, atexit, concurrent.futures, json, os, random, re, shutil, signal, subprocess, sys, threading, time

VERIF = os.path.dirname(os.path.abspath(__file__))
sys.path.insert(0, VERIF)
import plan as PLAN  # noqa: E402
from vlib import kani as K  # noqa: E402
from vlib import replay as RP  # noqa: E402
from vlib import claims as CL  # noqa: E402
from vlib import smt as SMT  # noqa: E402

MEM_BUDGET_GB = 52
DEFAULT_JOBS = 16


def load_findings():
    p = os.path.join(VERIF, "known_findings.json")
    if not os.path.exists(p):
        return {"findings": [], "fixed": []}
    return json.load(open(p))


class Sched:
    """Run harnesses in parallel under a total expected-memory budget."""

    def __init__(self, jobs):
        self.jobs = jobs
        self.lock = threading.Condition()
        self.mem = 0.0
        self.running = 0

    def acquire(self, gb):
        with self.lock:
            while self.running >= self.jobs or (self.running > 0 and self.mem + gb > MEM_BUDGET_GB):
                self.lock.wait()
            self.running += 1
            self.mem += gb

    def release(self, gb):
        with self.lock:
            self.running -= 1
            self.mem -= gb
            self.lock.notify_all()


def run_one(h, scratch, logdir, sched, tier):
    if h.crate == "smt":
        exp = getattr(h, "exp_gb", 3)
        sched.acquire(exp)
        try:
            return SMT.run_smt(h, scratch, logdir, tier)
        finally:
            sched.release(exp)
    crate_rel, _pkg = K.CRATES[h.crate]
    crate_dir = os.path.join(scratch, crate_rel)
    target = os.path.join(scratch, "target-" + h.crate)
    logfile = os.path.join(logdir, h.name + ".log")
    exp = getattr(h, "exp_gb", 3)
    sched.acquire(exp)
    extra = list(h.args)
    uw_note = None
    try:
        if getattr(h, "unwindset", None):
            # per-loop bounds: resolve CBMC loop identifiers from the GOTO binary of this very build
            rc0, _ = K.run_cargo_kani(crate_dir, target, h.name, logfile + ".codegen", 900, 0, list(h.args) + ["--only-codegen"], qname=h.qname)
            leaf = (h.qname or h.name).split("::")[-1]
            gb = K.find_goto_binary(target, leaf)
            if rc0 != 0 or not gb:
                uw_note = "could not locate the GOTO binary to resolve loop identifiers"
            else:
                chosen, unmatched, nloops = K.resolve_unwindset(gb, h.unwindset)
                if unmatched:  # not fatal: a too-small bound is still reported by the unwinding assertions
                    K.log("[unwindset] %s: no loop matches %r" % (h.name, unmatched))
                extra += ["-Z", "unstable-options", "--cbmc-args", "--unwindset", ",".join("%s:%d" % kv for kv in sorted(chosen.items()))]
        if uw_note:
            rc, wall = 2, 0.0
            open(logfile, "w").write("INSTRUMENTATION: " + uw_note + "\n")
        else:
            rc, wall = K.run_cargo_kani(crate_dir, target, h.name, logfile, h.timeout, h.mem_gb, extra, qname=h.qname)
    finally:
        sched.release(exp)
    text = open(logfile, errors="replace").read()
    r = K.parse_kani_log(text)
    r.update({"harness": h.name, "rc": rc, "wall_s": round(wall, 1), "log": logfile, "extra_args": extra})
    # classification
    if rc is None:
        r["class"] = "inconclusive"
        r["why"] = "timeout after %ds" % h.timeout
    elif r["verdict"] == "SUCCESSFUL":
        bad = r["covers"]["unsatisfiable"] + r["covers"]["unreachable"]
        if bad:
            r["class"] = "inconclusive"
            r["why"] = "vacuity: %d cover witness(es) not satisfiable" % bad
        elif r.get("undetermined"):
            r["class"] = "inconclusive"
            r["why"] = "undetermined checks"
        else:
            r["class"] = "pass"
    elif r["verdict"] == "FAILED":
        real = [c for c in r["failed_checks"] if "unwinding assertion" not in (c["desc"] or "")]
        if not real and r["unwinding_failed"]:
            r["class"] = "inconclusive"
            r["why"] = "unwinding bound too small"
        elif not real:
            r["class"] = "inconclusive"
            r["why"] = "FAILED without a failed check (CBMC error / out of memory?)"
        else:
            r["class"] = "fail"
    else:
        r["class"] = "inconclusive"
        tail = "\n".join(text.splitlines()[-15:])
        r["why"] = "no verdict (build error, crash or out of memory); log tail:\n" + tail
    K.log("[%s] %-34s %-12s checks=%s covers=%s solver=%ss wall=%ss%s" % (
        tier, h.name, r["class"], r["checks_total"], r["covers"]["satisfied"], r["verification_time_s"], r["wall_s"],
        (" :: " + r["why"].splitlines()[0]) if r.get("why") else ""))
    return r


def warm_up(hs, scratch, logdir):
    """Build dependencies once per crate so that the parallel runs only recompile the top crate."""
    seen = set()
    for h in hs:
        if h.crate in seen or h.crate == "smt":
            continue
        seen.add(h.crate)
        crate_rel, _ = K.CRATES[h.crate]
        target = os.path.join(scratch, "target-" + h.crate)
        logfile = os.path.join(logdir, "warmup-%s.log" % h.crate)
        t0 = time.time()
        rc, _ = K.run_cargo_kani(os.path.join(scratch, crate_rel), target, h.name, logfile, 1200, 0, list(h.args) + ["--only-codegen"], qname=h.qname)
        K.log("[build] crate %-6s codegen rc=%s %.1fs" % (h.crate, rc, time.time() - t0))
        if rc != 0:
            tail = "\n".join(open(logfile, errors="replace").read().splitlines()[-40:])
            K.log(tail)
            return False, "build of crate '%s' with harnesses failed (see %s)" % (h.crate, logfile)
    return True, ""


def main():
    ap = argparse.ArgumentParser()
    ap.add_argument("prop", nargs="?")
    ap.add_argument("--tier", default=os.environ.get("VERIF_TIER", "quick"))
    ap.add_argument("--dev", nargs="+")
    ap.add_argument("--keep", action="store_true")
    ap.add_argument("--jobs", type=int, default=int(os.environ.get("VERIF_JOBS", DEFAULT_JOBS)))
    ap.add_argument("--replay")
    ap.add_argument("--timeout-scale", type=float, default=float(os.environ.get("VERIF_TIMEOUT_SCALE", "1")))
    a = ap.parse_args()
    seed = int(os.environ.get("VERIF_SEED", "0") or 0)
    tier = a.tier if a.tier in ("quick", "thorough") else "quick"

    if a.replay:
        sys.exit(RP.replay_file(a.replay))

    if a.dev:
        hs = [PLAN.BY_NAME[n] for n in a.dev]
        prop = "DEV"
    else:
        if not a.prop:
            ap.error("property id required")
        prop = a.prop
        hs = PLAN.harnesses_for(prop, tier)
        if not hs:
            print("no harness registered for %s" % prop)
            sys.exit(2)
    for h in hs:
        h.timeout = int(h.timeout * a.timeout_scale)

    t_start = time.time()
    scratch = os.environ.get("VERIF_SCRATCH") or "/var/tmp/sonic-verif.%d" % os.getpid()
    logdir = os.path.join(VERIF, "logs", "%s-%s" % (prop if not a.dev else "DEV%d" % os.getpid(), tier))
    shutil.rmtree(logdir, ignore_errors=True)
    os.makedirs(logdir, exist_ok=True)

    def cleanup(*_):
        if not a.keep:
            shutil.rmtree(scratch, ignore_errors=True)

    atexit.register(cleanup)
    for sg in (signal.SIGTERM, signal.SIGINT):
        signal.signal(sg, lambda s, f: (cleanup(), os._exit(130)))

    try:
        prep = K.prepare_scratch(scratch)
    except RuntimeError as e:
        print("INCONCLUSIVE property=%s %s" % (prop, e))
        sys.exit(2)
    K.log("[prep] scratch=%s %.1fs, %d modules injected" % (scratch, prep["prepare_s"], len(prep["injected"])))

    # the reference models must agree with serde_json/std before anything is compared with them
    st_ok, st_msg = RP.selftest_refs(scratch)
    if not st_ok:
        print("INCONCLUSIVE property=%s reference self-test failed: %s" % (prop, st_msg))
        sys.exit(2)

    ok, msg = warm_up(hs, scratch, logdir)
    if not ok:
        print("INCONCLUSIVE property=%s %s" % (prop, msg))
        sys.exit(2)

    # VERIF_SEED only permutes scheduling order among equally expensive harnesses
    rnd = random.Random(seed)
    order = sorted(hs, key=lambda h: (-h.timeout, rnd.random()))
    sched = Sched(a.jobs)
    results = {}
    with concurrent.futures.ThreadPoolExecutor(max_workers=max(1, min(a.jobs, len(order)))) as ex:
        futs = {ex.submit(run_one, h, scratch, logdir, sched, tier): h for h in order}
        for f in concurrent.futures.as_completed(futs):
            h = futs[f]
            try:
                results[h.name] = f.result()
            except Exception as e:  # driver bug: never report as pass
                results[h.name] = {"harness": h.name, "class": "inconclusive", "why": "driver error: %r" % (e,),
                                   "covers": {"satisfied": 0, "unsatisfiable": 0, "unreachable": 0},
                                   "checks_total": None, "checks_failed": None, "verification_time_s": None, "wall_s": 0,
                                   "failed_checks": []}

    findings = load_findings()
    violations, known, inconclusive = [], [], []
    for h in hs:
        r = results[h.name]
        if h.expect == "known-fail":
            listed = [f for f in findings.get("findings", []) if f["id"] == h.finding and (prop in f["properties"] or prop == "DEV")]
            if r["class"] == "fail" and listed:
                known.append((h, r, listed[0]))
                r["class"] = "known-finding"
            elif r["class"] == "fail":
                violations.append((h, r))
            elif r["class"] == "pass":
                r["note"] = "listed finding %s no longer reproduces on this tree" % h.finding
            else:
                inconclusive.append((h, r))
        elif r["class"] == "fail":
            violations.append((h, r))
        elif r["class"] != "pass":
            inconclusive.append((h, r))

    # replay every counterexample natively before reporting it
    confirmed = []
    for h, r in violations:
        rep = (SMT if h.crate == "smt" else RP).replay_counterexample(h, r, scratch, prop, logdir)
        r["replay"] = rep
        if rep["reproduced"] or rep.get("ub_only"):
            confirmed.append((h, r, rep))
        else:
            r["class"] = "inconclusive"
            r["why"] = "counterexample did not reproduce natively (encoding or stub problem): " + rep.get("detail", "")
            inconclusive.append((h, r))

    wall = time.time() - t_start
    if not a.dev:
        CL.write_evidence(prop, tier, seed, hs, results, wall, len(confirmed), known, inconclusive)

    for h, r, f in known:
        print("KNOWN-FINDING: property=%s %s [%s: %s]" % (prop, f["what"], f["id"], h.name))
    for h, r, rep in confirmed:
        print("VIOLATION property=%s replay=%s" % (prop, rep["path"]))
        for c in r["failed_checks"][:5]:
            print("  failed: %s @ %s" % (c["desc"], c["loc"]))
    for h, r in inconclusive:
        print("INCONCLUSIVE property=%s harness=%s %s" % (prop, h.name, r.get("why", "")))
    npass = sum(1 for h in hs if results[h.name]["class"] == "pass")
    print("SUMMARY property=%s tier=%s harnesses=%d pass=%d known=%d violations=%d inconclusive=%d wall=%.0fs" % (
        prop, tier, len(hs), npass, len(known), len(confirmed), len(inconclusive), wall))
    if confirmed:
        sys.exit(1)
    if inconclusive:
        sys.exit(2)
    sys.exit(0)


if __name__ == "__main__":
    main()
