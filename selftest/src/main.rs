//! Native honesty check of the reference models and of the intrinsic models:
//! any disagreement with serde_json / std / the real CPU instruction aborts with exit 1,
//! and run_check.py then refuses to compare the real code against them (exit 2).
#[path = "../../harness/common/refs.rs"]
mod refs;
#[path = "../../harness/common/kmodels.rs"]
mod kmodels;
#[path = "../../harness/common/intrinsics.rs"]
mod intrinsics;

use refs::*;
use serde::de::IgnoredAny;

fn die(msg: String) -> ! {
    println!("SELFTEST-DISAGREEMENT: {}", msg);
    std::process::exit(1);
}

/// every string over `alpha` of length 0..=max_len
fn for_all(alpha: &[u8], max_len: usize, mut f: impl FnMut(&[u8])) -> u64 {
    let mut count = 0u64;
    let mut buf = vec![0u8; max_len];
    for len in 0..=max_len {
        let mut idx = vec![0usize; len];
        loop {
            for k in 0..len {
                buf[k] = alpha[idx[k]];
            }
            f(&buf[..len]);
            count += 1;
            let mut k = 0;
            loop {
                if k == len {
                    break;
                }
                idx[k] += 1;
                if idx[k] < alpha.len() {
                    break;
                }
                idx[k] = 0;
                k += 1;
            }
            if k == len {
                break;
            }
        }
    }
    count
}

fn check_grammar(alpha: &[u8], max_len: usize) -> u64 {
    for_all(alpha, max_len, |s| {
        let mine = ref_is_json_text(s, s.len());
        let theirs = serde_json::from_slice::<IgnoredAny>(s).is_ok();
        if mine != theirs {
            die(format!("ref_is_json_text({:?}) = {} but serde_json says {}", String::from_utf8_lossy(s), mine, theirs));
        }
    })
}

fn check_numbers(max_len: usize) -> u64 {
    let alpha = b"019-+.eE x";
    for_all(alpha, max_len, |s| {
        if s.is_empty() || !(s[0] == b'-' || s[0].is_ascii_digit()) {
            return;
        }
        let mine = ref_number_end(s, s.len(), 0);
        // whole-string acceptance must agree with serde_json's syntax check
        let whole = mine == Some(s.len());
        let theirs = serde_json::from_slice::<IgnoredAny>(s).is_ok();
        if whole != theirs && !s.contains(&b' ') && !s.contains(&b'x') {
            die(format!("ref_number_end({:?}) = {:?} but serde_json whole-accept = {}", String::from_utf8_lossy(s), mine, theirs));
        }
        // prefix property: Some(e) => s[..e] is a number and no longer prefix is
        if let Some(e) = mine {
            if !serde_json::from_slice::<IgnoredAny>(&s[..e]).is_ok() {
                die(format!("ref_number_end({:?}) = {} is not a number", String::from_utf8_lossy(s), e));
            }
        }
    })
}

fn std_decode(body: &[u8], lossy: bool) -> Option<Vec<u8>> {
    // independent decoder built on std: collect UTF-16 units of consecutive \u escapes and let
    // char::decode_utf16 pair them; everything else through serde_json-free scalar code
    let mut out = Vec::new();
    let mut i = 0;
    let mut units: Vec<u16> = Vec::new();
    let flush = |units: &mut Vec<u16>, out: &mut Vec<u8>| -> bool {
        for r in char::decode_utf16(units.iter().copied()) {
            match r {
                Ok(c) => {
                    let mut b = [0u8; 4];
                    out.extend_from_slice(c.encode_utf8(&mut b).as_bytes());
                }
                Err(_) => {
                    if lossy {
                        out.extend_from_slice("\u{FFFD}".as_bytes());
                    } else {
                        return false;
                    }
                }
            }
        }
        units.clear();
        true
    };
    loop {
        if i >= body.len() {
            return None;
        }
        let c = body[i];
        if c == b'\\' && i + 1 < body.len() && body[i + 1] == b'u' {
            let h = body.get(i + 2..i + 6)?;
            let hs = std::str::from_utf8(h).ok()?;
            if !hs.bytes().all(|x| x.is_ascii_hexdigit()) {
                return None;
            }
            units.push(u16::from_str_radix(hs, 16).ok()?);
            i += 6;
            continue;
        }
        if !flush(&mut units, &mut out) {
            return None;
        }
        match c {
            b'"' => return Some(out),
            0..=0x1f => return None,
            b'\\' => {
                let e = *body.get(i + 1)?;
                let v = match e {
                    b'"' => b'"',
                    b'\\' => b'\\',
                    b'/' => b'/',
                    b'b' => 8,
                    b'f' => 12,
                    b'n' => 10,
                    b'r' => 13,
                    b't' => 9,
                    _ => return None,
                };
                out.push(v);
                i += 2;
            }
            _ => {
                out.push(c);
                i += 1;
            }
        }
    }
}

fn check_strings(max_len: usize) -> u64 {
    // alphabet that forms escapes, surrogates (d8xx / dcxx), controls and plain bytes
    let alpha = b"\\u\"dD8c0nx\x01/";
    let mut n = for_all(alpha, max_len, |body| {
        let mut out = [0u8; 64];
        let strict = ref_decode_string(body, body.len(), 0, false, &mut out).map(|(e, l)| (e, out[..l].to_vec()));
        // serde_json as oracle for strict decoding of the literal `"` + prefix up to end
        if let Some((e, bytes)) = &strict {
            let mut lit = vec![b'"'];
            lit.extend_from_slice(&body[..*e]);
            match serde_json::from_slice::<String>(&lit) {
                Ok(s) if s.as_bytes() == &bytes[..] => {}
                other => die(format!("ref_decode_string strict {:?} -> {:?}, serde_json -> {:?}", String::from_utf8_lossy(body), bytes, other)),
            }
            if ref_string_end(body, body.len(), 0) != Some(*e) {
                die(format!("ref_string_end disagrees with ref_decode_string on {:?}", String::from_utf8_lossy(body)));
            }
        } else {
            // rejected: either grammar-malformed or a lone surrogate; serde_json must reject every closing prefix
            if let Some(e) = ref_string_end(body, body.len(), 0) {
                let mut lit = vec![b'"'];
                lit.extend_from_slice(&body[..e]);
                if serde_json::from_slice::<String>(&lit).is_ok() {
                    die(format!("ref_decode_string rejects {:?} but serde_json accepts", String::from_utf8_lossy(&lit)));
                }
            }
        }
        // grammar-level skipper reference vs serde_json's IgnoredAny on the closed literal
        if let Some(e) = ref_string_end(body, body.len(), 0) {
            let mut lit = vec![b'"'];
            lit.extend_from_slice(&body[..e]);
            if !serde_json::from_slice::<IgnoredAny>(&lit).is_ok() {
                die(format!("ref_string_end accepts {:?} but serde_json IgnoredAny rejects", String::from_utf8_lossy(&lit)));
            }
        } else if body.last() == Some(&b'"') {
            let mut lit = vec![b'"'];
            lit.extend_from_slice(body);
            // no closing prefix is well formed; in particular the whole thing is not
            if serde_json::from_slice::<IgnoredAny>(&lit).is_ok() {
                die(format!("ref_string_end rejects {:?} but serde_json IgnoredAny accepts", String::from_utf8_lossy(&lit)));
            }
        }
        // std-based decoder, strict and lossy
        for lossy in [false, true] {
            let mine = ref_decode_string(body, body.len(), 0, lossy, &mut out).map(|(_, l)| out[..l].to_vec());
            let theirs = std_decode(body, lossy);
            if mine != theirs {
                die(format!("ref_decode_string(lossy={}) {:?} -> {:?}, std -> {:?}", lossy, String::from_utf8_lossy(body), mine, theirs));
            }
        }
    });
    // all code units and all pairs around the surrogate boundaries
    let edge: Vec<u32> = vec![0x0000, 0x007f, 0x0080, 0x07ff, 0x0800, 0xd7ff, 0xd800, 0xd801, 0xdbff, 0xdc00, 0xdc01, 0xdfff, 0xe000, 0xfffd, 0xffff];
    for a in 0..=0xffffu32 {
        let partners: Vec<u32> = if (0xd800..0xe000).contains(&a) { (0..=0xffffu32).step_by(if a % 64 == 0 { 1 } else { 257 }).collect() } else { edge.clone() };
        for b in partners {
            let body = format!("\\u{:04x}\\u{:04X}\"", a, b).into_bytes();
            for lossy in [false, true] {
                let mut out = [0u8; 64];
                let mine = ref_decode_string(&body, body.len(), 0, lossy, &mut out).map(|(_, l)| out[..l].to_vec());
                let theirs = std_decode(&body, lossy);
                if mine != theirs {
                    die(format!("u-escape pair {:04x} {:04x} lossy={}: {:?} vs {:?}", a, b, lossy, mine, theirs));
                }
                n += 1;
            }
        }
    }
    n
}

fn check_escape(max_len: usize) -> u64 {
    let alpha = b"a\"\\\x00\x08\x09\x0a\x0b\x0c\x0d\x1f\x20\x7f";
    let mut n = for_all(alpha, max_len, |s| {
        let mut out = [0u8; 128];
        let l = ref_escape(s, s.len(), true, &mut out);
        let theirs = serde_json::to_string(std::str::from_utf8(s).unwrap()).unwrap();
        if &out[..l] != theirs.as_bytes() {
            die(format!("ref_escape({:?}) = {:?}, serde_json = {:?}", s, String::from_utf8_lossy(&out[..l]), theirs));
        }
    });
    for c in 0u32..=0x7f {
        let s = [c as u8];
        let mut out = [0u8; 16];
        let l = ref_escape(&s, 1, false, &mut out);
        let theirs = serde_json::to_string(std::str::from_utf8(&s).unwrap()).unwrap();
        if &out[..l] != &theirs.as_bytes()[1..theirs.len() - 1] {
            die(format!("ref_escape byte {:#x}", c));
        }
        n += 1;
    }
    n
}

fn check_line_col() -> u64 {
    let alpha = b"a\n\r";
    for_all(alpha, 7, |s| {
        for idx in 0..=s.len() + 1 {
            let (l, c) = ref_line_col(s, s.len(), idx);
            let k = idx.min(s.len());
            let line = 1 + s[..k].iter().filter(|&&b| b == b'\n').count();
            let col = k - s[..k].iter().rposition(|&b| b == b'\n').map(|p| p + 1).unwrap_or(0);
            if (l, c) != (line, col) {
                die(format!("ref_line_col({:?}, {}) = {:?} expected {:?}", s, idx, (l, c), (line, col)));
            }
        }
    })
}

fn check_container_end(max_len: usize) -> u64 {
    let alpha = b"[]{}\",:1\\ a";
    for_all(alpha, max_len, |s| {
        if s.is_empty() || !(s[0] == b'[' || s[0] == b'{') {
            return;
        }
        // on well-formed containers the bracket machine must find the true end
        if let Some(e) = ref_value_end(s, s.len(), 0) {
            let (l, r) = if s[0] == b'[' { (b'[', b']') } else { (b'{', b'}') };
            let m = ref_container_end(s, s.len(), 1, l, r);
            if m != Some(e) {
                die(format!("ref_container_end({:?}) = {:?}, value end = {}", String::from_utf8_lossy(s), m, e));
            }
            // the trusting string skipper agrees with the validating one on well-formed literals
        }
    })
}

fn check_intrinsics() -> u64 {
    #[cfg(target_arch = "x86_64")]
    unsafe {
        use std::arch::x86_64::*;
        let mut n = 0u64;
        for lane in 0..16usize {
            for a in 0..=255u8 {
                for b in 0..=255u8 {
                    let mut x = [0x5au8; 16];
                    let mut y = [0xa5u8; 16];
                    x[lane] = a;
                    y[lane] = b;
                    let vx: __m128i = std::mem::transmute(x);
                    let vy: __m128i = std::mem::transmute(y);
                    let real: [u8; 16] = std::mem::transmute(_mm_max_epu8(vx, vy));
                    let model: [u8; 16] = std::mem::transmute(kmodels::mm_max_epu8(vx, vy));
                    if real != model {
                        die(format!("_mm_max_epu8 model differs: lane {} a {} b {}", lane, a, b));
                    }
                    n += 1;
                }
            }
        }
        return n;
    }
    #[allow(unreachable_code)]
    0
}

/// The other intrinsic models of the C17 harnesses against the real instructions of this CPU
/// (skipped, and reported as such, if the CPU lacks the feature).
fn check_intrinsic_models() -> (u64, Vec<&'static str>) {
    let mut n = 0u64;
    let mut skipped = Vec::new();
    // small deterministic generator (xorshift) plus edge patterns
    let mut st: u64 = 0x9E37_79B9_7F4A_7C15;
    let mut next = move || {
        st ^= st << 13;
        st ^= st >> 7;
        st ^= st << 17;
        st
    };
    #[cfg(target_arch = "x86_64")]
    unsafe {
        use std::arch::x86_64::*;
        let edges: [u8; 8] = [0, 1, 0x7f, 0x80, 0xff, 0x30, 0x39, 0x0f];
        let mut vecs128: Vec<[u8; 16]> = Vec::new();
        for e in edges {
            vecs128.push([e; 16]);
        }
        for _ in 0..20000 {
            let (a, b) = (next(), next());
            let mut v = [0u8; 16];
            v[..8].copy_from_slice(&a.to_le_bytes());
            v[8..].copy_from_slice(&b.to_le_bytes());
            vecs128.push(v);
        }
        for i in 0..vecs128.len() {
            let a: __m128i = std::mem::transmute(vecs128[i]);
            let b: __m128i = std::mem::transmute(vecs128[(i * 7 + 3) % vecs128.len()]);
            let r: [u8; 16] = std::mem::transmute(_mm_sub_epi8(a, b));
            let m: [u8; 16] = std::mem::transmute(intrinsics::mm_sub_epi8(a, b));
            if r != m { die("_mm_sub_epi8 model differs".into()); }
            let r: [u8; 16] = std::mem::transmute(_mm_madd_epi16(a, b));
            let m: [u8; 16] = std::mem::transmute(intrinsics::mm_madd_epi16(a, b));
            if r != m { die("_mm_madd_epi16 model differs".into()); }
            n += 2;
            if is_x86_feature_detected!("ssse3") {
                let r: [u8; 16] = std::mem::transmute(ssse3_maddubs(a, b));
                let m: [u8; 16] = std::mem::transmute(intrinsics::mm_maddubs_epi16(a, b));
                if r != m { die("_mm_maddubs_epi16 model differs".into()); }
                n += 1;
            }
            if is_x86_feature_detected!("sse4.1") {
                let r: [u8; 16] = std::mem::transmute(sse41_packus(a, b));
                let m: [u8; 16] = std::mem::transmute(intrinsics::mm_packus_epi32(a, b));
                if r != m { die("_mm_packus_epi32 model differs".into()); }
                n += 1;
            }
            if is_x86_feature_detected!("pclmulqdq") {
                let r: [u8; 16] = std::mem::transmute(clmul00(a, b));
                let m: [u8; 16] = std::mem::transmute(intrinsics::mm_clmulepi64_si128::<0>(a, b));
                if r != m { die("_mm_clmulepi64_si128::<0> model differs".into()); }
                let r: [u8; 16] = std::mem::transmute(clmul11(a, b));
                let m: [u8; 16] = std::mem::transmute(intrinsics::mm_clmulepi64_si128::<0x11>(a, b));
                if r != m { die("_mm_clmulepi64_si128::<0x11> model differs".into()); }
                n += 2;
            }
            if is_x86_feature_detected!("avx2") {
                let mut x = [0u8; 32];
                x[..16].copy_from_slice(&vecs128[i]);
                x[16..].copy_from_slice(&vecs128[(i * 5 + 1) % vecs128.len()]);
                let mut y = [0u8; 32];
                y[..16].copy_from_slice(&vecs128[(i * 3 + 2) % vecs128.len()]);
                y[16..].copy_from_slice(&vecs128[(i * 11 + 5) % vecs128.len()]);
                let va: __m256i = std::mem::transmute(x);
                let vb: __m256i = std::mem::transmute(y);
                let r: [u8; 32] = std::mem::transmute(avx2_shuffle(va, vb));
                let m: [u8; 32] = std::mem::transmute(intrinsics::mm256_shuffle_epi8(va, vb));
                if r != m { die("_mm256_shuffle_epi8 model differs".into()); }
                let r: [u8; 32] = std::mem::transmute(avx2_max(va, vb));
                let m: [u8; 32] = std::mem::transmute(intrinsics::mm256_max_epu8(va, vb));
                if r != m { die("_mm256_max_epu8 model differs".into()); }
                n += 2;
            }
        }
        if !is_x86_feature_detected!("ssse3") { skipped.push("ssse3 (_mm_maddubs_epi16)"); }
        if !is_x86_feature_detected!("sse4.1") { skipped.push("sse4.1 (_mm_packus_epi32)"); }
        if !is_x86_feature_detected!("pclmulqdq") { skipped.push("pclmulqdq (_mm_clmulepi64_si128)"); }
        if !is_x86_feature_detected!("avx2") { skipped.push("avx2 (_mm256_shuffle_epi8, _mm256_max_epu8)"); }
    }
    (n, skipped)
}

#[cfg(target_arch = "x86_64")]
#[target_feature(enable = "ssse3")]
unsafe fn ssse3_maddubs(a: std::arch::x86_64::__m128i, b: std::arch::x86_64::__m128i) -> std::arch::x86_64::__m128i {
    std::arch::x86_64::_mm_maddubs_epi16(a, b)
}
#[cfg(target_arch = "x86_64")]
#[target_feature(enable = "sse4.1")]
unsafe fn sse41_packus(a: std::arch::x86_64::__m128i, b: std::arch::x86_64::__m128i) -> std::arch::x86_64::__m128i {
    std::arch::x86_64::_mm_packus_epi32(a, b)
}
#[cfg(target_arch = "x86_64")]
#[target_feature(enable = "pclmulqdq")]
unsafe fn clmul00(a: std::arch::x86_64::__m128i, b: std::arch::x86_64::__m128i) -> std::arch::x86_64::__m128i {
    std::arch::x86_64::_mm_clmulepi64_si128::<0>(a, b)
}
#[cfg(target_arch = "x86_64")]
#[target_feature(enable = "pclmulqdq")]
unsafe fn clmul11(a: std::arch::x86_64::__m128i, b: std::arch::x86_64::__m128i) -> std::arch::x86_64::__m128i {
    std::arch::x86_64::_mm_clmulepi64_si128::<0x11>(a, b)
}
#[cfg(target_arch = "x86_64")]
#[target_feature(enable = "avx2")]
unsafe fn avx2_shuffle(a: std::arch::x86_64::__m256i, b: std::arch::x86_64::__m256i) -> std::arch::x86_64::__m256i {
    std::arch::x86_64::_mm256_shuffle_epi8(a, b)
}
#[cfg(target_arch = "x86_64")]
#[target_feature(enable = "avx2")]
unsafe fn avx2_max(a: std::arch::x86_64::__m256i, b: std::arch::x86_64::__m256i) -> std::arch::x86_64::__m256i {
    std::arch::x86_64::_mm256_max_epu8(a, b)
}

fn check_repo_samples() -> u64 {
    // inputs taken from the repository's own tests (src/serde/mod.rs, src/value/node.rs, lazyvalue tests)
    let ok = [
        r#"{"a": "hello world", "b": true, "c": [0, 1, 2], "d": {"sonic": "rs"}}"#,
        r#"[1, 2, 3, 4, 5, 6]"#,
        r#"{"a\\": "\\hello \" world"}"#,
        r#""\ud83d\ude00""#,
        "  [ ]  ",
        "1.2345678901234567890123",
        "-0.0e-10",
        r#"{"a":{"b":{"c":[[[]]]}}}"#,
    ];
    let bad = [
        r#"{"a":"#, r#"{"a":123"#, r#"{"a":}"#, r#"{"a": x}"#, r#"{"a":1.}"#, r#"{"a:1.}"#, r#"{"a" 1}"#, r#"{"a"[1}}"#,
        "[1,]", "01", "-", "1e", "tru", "\"\\x\"", "[1 2]", "{,}",
    ];
    for s in ok {
        if !ref_is_json_text(s.as_bytes(), s.len()) {
            die(format!("reference rejects repo sample {:?}", s));
        }
    }
    for s in bad {
        if ref_is_json_text(s.as_bytes(), s.len()) {
            die(format!("reference accepts malformed repo sample {:?}", s));
        }
    }
    (ok.len() + bad.len()) as u64
}

fn main() {
    let quick = std::env::args().any(|a| a == "--quick");
    let t = std::time::Instant::now();
    let mut n = 0u64;
    n += check_repo_samples();
    // 12-symbol JSON alphabet, all strings up to length 6 (quick: 5)
    n += check_grammar(b"[]{},:\"1t \\-", if quick { 5 } else { 6 });
    n += check_grammar(b"true\"fals n:{}", if quick { 4 } else { 5 });
    n += check_numbers(if quick { 5 } else { 6 });
    n += check_strings(if quick { 5 } else { 6 });
    n += check_escape(if quick { 4 } else { 5 });
    n += check_line_col();
    n += check_container_end(if quick { 5 } else { 6 });
    n += check_intrinsics();
    let (ni, skipped) = check_intrinsic_models();
    n += ni;
    if !skipped.is_empty() {
        println!("selftest note: CPU lacks {:?}; those intrinsic models were not validated on this machine", skipped);
    }
    println!("selftest ok: {} comparisons against serde_json/std/CPU in {:.1}s", n, t.elapsed().as_secs_f64());
}
