"""Second back end: SMT over the compiler's MIR (smt/mir2smt.py + smt/float_check.py).

A plan entry with crate == "smt" runs `float_check.py` on the scratch copy of /repo; its
counterexamples are decimal texts, replayed natively through `sonic_rs::from_str::<f64>` by the
small runner in smt/replay (built against the same scratch copy, dev profile then release)."""
import json, os, shutil, subprocess, time

from . import kani as K

VERIF = K.VERIF


def run_smt(h, scratch, logdir, tier):
    out = os.path.join(logdir, h.name + ".json")
    logfile = os.path.join(logdir, h.name + ".log")
    cmd = ["python3", os.path.join(VERIF, "smt", h.args[0]), "--repo", os.path.join(scratch, "repo"),
           "--scratch", os.path.join(scratch, "smt-" + h.name), "--out", out] + list(h.args[1:])
    t0 = time.time()
    try:
        with open(logfile, "w") as lf:
            p = subprocess.run(cmd, stdout=lf, stderr=subprocess.STDOUT, timeout=h.timeout)
        rc = p.returncode
    except subprocess.TimeoutExpired:
        rc = None
    wall = time.time() - t0
    r = {"harness": h.name, "rc": rc, "wall_s": round(wall, 1), "log": logfile, "extra_args": list(h.args),
         "covers": {"satisfied": 0, "unsatisfiable": 0, "unreachable": 0}, "checks_total": 0, "checks_failed": 0,
         "verification_time_s": None, "failed_checks": [], "verdict": None}
    if rc is None:
        r["class"], r["why"] = "inconclusive", "timeout after %ds" % h.timeout
    elif rc != 0 or not os.path.exists(out):
        tail = "\n".join(open(logfile, errors="replace").read().splitlines()[-12:])
        r["class"], r["why"] = "inconclusive", "the SMT driver failed (MIR dump or translator error); log tail:\n" + tail
    else:
        d = json.load(open(out))
        r["smt"] = {k: d.get(k) for k in ("cases", "outcomes", "intrinsics_modelled", "exponents", "paths", "decided_returns", "cache_hits", "opaque_returns", "err_returns", "oblig_unsat",
                                          "oblig_unknown", "queries", "solver_calls", "fast_exps_range", "n_fast_exps", "opaque_calls",
                                          "interpreted", "validation", "solver", "wall_s")}
        r["checks_total"] = d["decided_returns"] + d["oblig_unsat"] + len(d["oblig_sat"])
        r["verification_time_s"] = round(d["solver_s"], 1)
        cex = d["violations"] + d["oblig_sat"] + d.get("validation", {}).get("mismatches", [])
        r["checks_failed"] = len(cex)
        val = d.get("validation", {})
        r["covers"]["satisfied"] = val.get("reached_interpreted", 0)
        if d["unsupported"] or d["errors"]:
            r["class"] = "inconclusive"
            r["why"] = "translator/solver error: %s" % (d["unsupported"] or d["errors"])[:3]
        elif cex:
            r["class"] = "fail"
            r["failed_checks"] = [{"desc": ("%s: %s%s (shape %s)" % (c["kind"], c.get("text"), " followed by more input" if c.get("pad") else "", c["shape"])) if "shape" in c else
                                           ("%s at need=%s bytes=%s" % (c["kind"], c["need"], c.get("bytes"))) if "need" in c else
                                           ("%s at exp10=%s w=%s neg=%s" % (c["kind"], c["exp10"], c["w"], c.get("neg"))),
                                   "loc": "sonic-number/src/arch/x86_64.rs" if "need" in c else "sonic-number/src/lib.rs", "cex": c} for c in cex[:40]]
            r["failed_checks"] = [c for c in r["failed_checks"] if "shape" not in c["cex"] or c["cex"].get("text")] or r["failed_checks"]
        elif d["unknown"] or d["unrealisable"]:
            r["class"] = "inconclusive"
            r["why"] = "solver did not decide: unknown=%s unrealisable=%s" % (d["unknown"][:4], [(u["exp10"], u["kind"]) for u in d["unrealisable"][:4]])
        elif d["decided_returns"] == 0 or val.get("reached_interpreted", 0) == 0:
            r["class"] = "inconclusive"
            r["why"] = "vacuity: no path reaches an interpreted float constructor (was the function renamed or removed?)"
            r["covers"]["unreachable"] = 1
        else:
            r["class"] = "pass"
    K.log("[%s] %-34s %-12s queries=%s witnesses=%s solver=%ss wall=%ss%s" % (
        tier, h.name, r["class"], r["checks_total"], r["covers"]["satisfied"], r["verification_time_s"], r["wall_s"],
        (" :: " + r["why"].splitlines()[0]) if r.get("why") else ""))
    return r


def cex_text(c):
    if c.get("trunc"):
        # a literal whose first 19 digits are w and that continues: its exact value lies just below (w+1)*10^e
        ws = str(c["w"])
        if len(ws) == 17:     # what the fraction reader keeps: d.dddddddddddddddd then the dropped digits
            return "%s%s.%s%se%d" % ("-" if c.get("neg") else "", ws[0], ws[1:], "9" * 340, c["exp10"] + 16)
        return "%s%s%se%d" % ("-" if c.get("neg") else "", ws, "9" * 340, c["exp10"] - 340)
    return "%s%de%d" % ("-" if c.get("neg") else "", c["w"], c["exp10"])


def build_runner(repo_dir, work, kind="replay"):
    shutil.rmtree(work, ignore_errors=True)
    shutil.copytree(os.path.join(VERIF, "smt", kind), work, ignore=shutil.ignore_patterns("target"))
    for rel in ("Cargo.toml", os.path.join("src", "main.rs")):
        p = os.path.join(work, rel)
        txt = open(p).read().replace("@REPO@", repo_dir)
        with open(p, "w") as f:
            f.write(txt)
    lock = os.path.join(repo_dir, "Cargo.lock")
    if os.path.exists(lock):
        shutil.copy(lock, os.path.join(work, "Cargo.lock"))
    env = dict(os.environ, CARGO_NET_OFFLINE="true")
    if kind == "replay_simd":
        env["RUSTFLAGS"] = "-C target-cpu=native"     # the SSE kernel is only selected (and only compiles) with these features
    outs = {}
    for prof, flag in (("dev", []), ("release", ["--release"])):
        r = subprocess.run(["cargo", "build", "--offline"] + flag + ["--target-dir", os.path.join(work, "target")], cwd=work, env=env,
                           capture_output=True, text=True)
        if r.returncode != 0:
            return None, r.stderr[-1500:]
        outs[prof] = os.path.join(work, "target", "debug" if prof == "dev" else "release", "smt-replay-simd" if kind == "replay_simd" else "smt-replay")
    return outs, ""


def run_texts(bins, texts):
    res = {}
    for prof, b in bins.items():
        p = subprocess.run([b] + [a for t in texts for a in t.split(" ")], capture_output=True, text=True)
        res[prof] = {"exit": p.returncode, "lines": [l for l in p.stdout.splitlines() if l.startswith("REPLAY")]}
    return res


def replay_counterexample(h, r, scratch, prop, logdir):
    out_dir = os.path.join(VERIF, "replays")
    os.makedirs(out_dir, exist_ok=True)
    path = os.path.join(out_dir, "%s-%s.json" % (prop, h.name))
    texts = []
    kind = "replay"
    for c in r["failed_checks"]:
        if c["cex"].get("bytes") is not None and "need" in c["cex"]:
            kind = "replay_simd"
            t = "%d %s" % (c["cex"]["need"], c["cex"]["bytes"])
        elif c["cex"].get("text") is not None and "shape" in c["cex"]:
            t = ("pad:" if c["cex"].get("pad") else "") + c["cex"]["text"]
        elif c["cex"].get("w") is not None:
            t = cex_text(c["cex"])
        else:
            continue
        if t not in texts:
            texts.append(t)
    texts = texts[:12]
    rec = {"property": prop, "harness": h.name, "crate": "smt", "kind": "smt", "runner": kind, "texts": texts, "failed_checks": r["failed_checks"][:12],
           "functions": h.funcs, "bound": h.bound, "reproduced": False}
    bins, err = build_runner(os.path.join(scratch, "repo"), os.path.join(scratch, "smt-" + kind), kind)
    if bins is None:
        rec["detail"] = "replay runner did not build: " + err[-300:]
        json.dump(rec, open(path, "w"), indent=1)
        return {"reproduced": False, "ub_only": False, "path": path, "detail": rec["detail"]}
    res = run_texts(bins, texts)
    rec["native"] = res
    bad = [l for prof in res for l in res[prof]["lines"] if "verdict=differs" in l or "verdict=panic" in l]
    rec["reproduced"] = bool(bad)
    rec["detail"] = "; ".join(bad[:3]) if bad else "every text parses to the correctly rounded double natively"
    json.dump(rec, open(path, "w"), indent=1)
    return {"reproduced": rec["reproduced"], "ub_only": False, "path": path, "detail": rec["detail"]}


def replay_file(rec):
    """re-run recorded texts against /repo's current tree: 1 if one still parses wrongly"""
    work = "/var/tmp/sonic-verif-smtreplay.%d" % os.getpid()
    try:
        repo_copy = os.path.join(work, "repo")
        os.makedirs(work, exist_ok=True)
        subprocess.run(["rsync", "-a", "--exclude", "/target", "--exclude", "/.git", K.REPO + "/", repo_copy + "/"], check=True)
        bins, err = build_runner(repo_copy, os.path.join(work, "runner"), rec.get("runner", "replay"))
        if bins is None:
            print("replay runner did not build:\n" + err)
            return 2
        res = run_texts(bins, rec["texts"])
        bad = False
        for prof in res:
            for l in res[prof]["lines"]:
                print("[%s] %s" % (prof, l))
                bad = bad or "verdict=differs" in l or "verdict=panic" in l
        print("replay %s: %s" % (rec["harness"], "FAILS (violation reproduced)" if bad else "passes"))
        return 1 if bad else 0
    finally:
        shutil.rmtree(work, ignore_errors=True)
