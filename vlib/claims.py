"""Evidence writer: what each run actually covered (measured), plus the per-property statement of
what the harness set decides and what it leaves outside the claim."""
import json, os

from . import kani as K

VERIF = K.VERIF

TRUSTED = [
    "Kani 0.68 MIR->GOTO translation, CBMC 6.11 symbolic execution, CaDiCaL",
    "dev-profile semantics (debug assertions and overflow checks on) as modelled by Kani",
    "reference models in harness/common/refs.rs (cross-checked natively against serde_json/std by selftest)",
    "environment models/cuts listed per harness under 'stubs'",
    "the paper induction that composes kernel, block, tail and step lemmas (DESIGN.md section 4)",
    "smt/mir2smt.py: semantics of the MIR operators used by the interpreted functions (validated on every run by concrete execution of the same MIR against exact rational rounding); z3 5.1.0 / cvc5 1.0.3 on QF_LIA",
]

OUTSIDE = {}  # filled by plan_claims.py (kept separate to keep this file mechanical)
try:
    import plan_claims as _PC
    OUTSIDE = _PC.OUTSIDE
    DECIDED = _PC.DECIDED
except Exception:  # pragma: no cover
    DECIDED = {}


def write_evidence(prop, tier, seed, hs, results, wall, nviol, known, inconclusive):
    samples = []
    obligations = 0
    discharged = 0
    nontrivial = 0
    solver_s = 0.0
    funcs = []
    for h in hs:
        r = results[h.name]
        tot = r.get("checks_total") or 0
        failed = r.get("checks_failed") or 0
        obligations += tot
        if r["class"] in ("pass", "known-finding"):
            discharged += tot - failed
        cov = r.get("covers", {})
        if r["class"] == "pass" and cov.get("satisfied", 0) >= 1 and not (cov.get("unsatisfiable") or cov.get("unreachable")):
            nontrivial += 1
        elif r["class"] == "pass" and "complete" in h.bound:
            nontrivial += 1
        solver_s += r.get("verification_time_s") or 0.0
        for f in h.funcs:
            if f not in funcs:
                funcs.append(f)
        samples.append({
            "harness": h.name,
            "crate": h.crate,
            "functions_encoded": h.funcs,
            "bound": h.bound,
            "stubs_and_cuts": h.stubs,
            "verdict": r["class"],
            "why": (r.get("why") or "").splitlines()[0] if r.get("why") else None,
            "cbmc_checks": tot,
            "cbmc_checks_failed": failed,
            "cover_witnesses": cov,
            "solver_time_s": r.get("verification_time_s"),
            "wall_s": r.get("wall_s"),
            "note": r.get("note"),
            **({"smt": r["smt"]} if r.get("smt") else {}),
        })
    ev = {
        "property_id": prop,
        "tier": tier,
        "seed": seed,
        "level": "model_checking",
        "coverage": {
            "evaluations": len(hs),
            "distinct_nontrivial": nontrivial,
            "rule": ("one evaluation = one bounded-model-checking query (a #[kani::proof] harness over kani::any() inputs, "
                     "compiled from /repo's current tree and decided by CBMC for every assignment within the bound). A query is "
                     "counted non-trivial only if CBMC returned SUCCESSFUL with unwinding assertions on and every kani::cover! "
                     "reachability witness of the harness was SATISFIED (or the harness is complete over a finite space). "
                     "Entries with crate 'smt' are instead one run of smt/float_check.py: the MIR of the listed functions is executed "
                     "symbolically per decimal exponent and every returned double / dev-profile assertion becomes one linear-integer "
                     "query for z3 and cvc5 ('cbmc_checks' then counts those queries, 'cover_witnesses.satisfied' the concrete runs of "
                     "the same MIR that reached the interpreted constructor and matched exact rational rounding)."),
            "samples": samples,
            "obligations": obligations,
            "discharged": discharged,
            "checker_cmd": "cargo kani --harness <name> --exact -Z stubbing (CBMC 6.11, CaDiCaL), one process per harness; crate 'smt': python3 smt/float_check.py (rustc nightly -Zunpretty=mir -> QF_LIA, z3 5.1.0 and cvc5 1.0.3, one process per query)",
            "trusted_base": TRUSTED,
            "functions_encoded": funcs,
            "solver_time_s": round(solver_s, 2),
            "decided_as": DECIDED.get(prop, ""),
            "outside_the_claim": OUTSIDE.get(prop, []),
            "known_findings_reported": [f["id"] for _, _, f in known],
            "inconclusive_harnesses": [h.name for h, _ in inconclusive],
            "exhaustive": False,
            "explanation": ("Bounded verdicts: 'pass' means no assignment within the stated bound violates the assertion or "
                            "Kani's built-in checks (bounds, pointer validity, overflow, unwrap/panic, unwinding assertions); it "
                            "says nothing outside the bound."),
        },
        "assumptions": sorted({s for h in hs for s in h.stubs}),
        "wall_s": round(wall, 1),
        "violations": nviol,
    }
    evdir = os.environ.get("VERIF_EVIDENCE_DIR") or os.path.join(VERIF, "evidence")
    os.makedirs(evdir, exist_ok=True)
    with open(os.path.join(evdir, prop + ".json"), "w") as f:
        json.dump(ev, f, indent=1)
