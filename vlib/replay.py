"""Counterexample replay: turn CBMC's assignment into a native run of the real code.

Kani's concrete playback prints the values of every `kani::any()` of the failing harness as a
unit test; that test is compiled *natively* (rustc, dev and release profile) together with the
real crate from the scratch copy and run in a subprocess. The harness body then executes the
real functions on concrete bytes, without any stub (stubs are a Kani-only attribute), and a
panic / abort / failed assertion there is what "reproduced" means.
"""
import json, os, re, shutil, subprocess, sys, time

from . import kani as K

VERIF = K.VERIF

MEMORY_SAFETY_MARKERS = (
    "dereference failure", "pointer outside object bounds", "dead object", "deallocated dynamic object",
    "rust_dealloc", "double free", "free argument", "pointer NULL", "invalid pointer", "misaligned",
    "offset result and original pointer", "pointer arithmetic", "ptr_mask", "memcpy", "memmove",
)


def selftest_refs(scratch):
    """Native cross-check of the reference models against serde_json/std (built by setup)."""
    exe = os.path.join(VERIF, "selftest", "target", "release", "verif-selftest")
    if not os.path.exists(exe):
        return False, "selftest binary missing: run MANIFEST.setup_cmd (cd /verif && ./setup.sh)"
    # the binary embeds refs.rs as of its build; make sure it is not stale
    ref = os.path.join(VERIF, "harness", "common", "refs.rs")
    if os.path.getmtime(ref) > os.path.getmtime(exe) + 1:
        r = subprocess.run([os.path.join(VERIF, "setup.sh")], cwd=VERIF, capture_output=True, text=True)
        if r.returncode != 0:
            return False, "rebuilding the selftest failed: " + r.stdout[-400:] + r.stderr[-400:]
    r = subprocess.run([exe, "--quick"], capture_output=True, text=True, timeout=600)
    if r.returncode != 0:
        return False, (r.stdout + r.stderr)[-800:]
    K.log("[refs] " + r.stdout.strip().splitlines()[-1])
    return True, ""


_TEST_RE = re.compile(r"(#\[test\]\s*\n\s*fn (kani_concrete_playback_\w+)\(\) \{.*?\n\})", re.S)


def extract_playback(text):
    m = _TEST_RE.search(text)
    if not m:
        return None, None
    return m.group(1), m.group(2)


def harness_file_of(h, scratch):
    """Find the harness source file (inside <scratch>/harness) that defines `fn <name>(`."""
    leaf = (h.qname or h.name).split("::")[-1]
    for pat in (re.compile(r"\bfn %s\s*\(" % re.escape(leaf)), re.compile(r"\b%s\b" % re.escape(h.name))):
        for root, _, files in os.walk(os.path.join(scratch, "harness")):
            for fn in sorted(files):
                if fn.endswith(".rs") and "/ext/" not in root:
                    p = os.path.join(root, fn)
                    if pat.search(open(p).read()):
                        return p
    return None


def native_playback(crate_dir, test_name, release, logfile, timeout=1200):
    cmd = ["cargo", "kani", "playback", "-Z", "concrete-playback", "--", test_name]
    env = dict(os.environ)
    env["CARGO_NET_OFFLINE"] = "true"
    env["RUST_BACKTRACE"] = "0"
    env.pop("RUSTFLAGS", None)
    if release:
        # `cargo kani playback` has no --release: give the test profile release semantics instead
        env["CARGO_PROFILE_TEST_OPT_LEVEL"] = "3"
        env["CARGO_PROFILE_TEST_DEBUG_ASSERTIONS"] = "false"
        env["CARGO_PROFILE_TEST_OVERFLOW_CHECKS"] = "false"
    with open(logfile, "w") as lf:
        lf.write("$ (cd %s && %s)\n" % (crate_dir, " ".join(cmd)))
        lf.flush()
        try:
            p = subprocess.run(cmd, cwd=crate_dir, stdout=lf, stderr=subprocess.STDOUT, env=env, timeout=timeout)
            rc = p.returncode
        except subprocess.TimeoutExpired:
            rc = None
    text = open(logfile, errors="replace").read()
    ran = re.search(r"running (\d+) test", text)
    nran = sum(int(x) for x in re.findall(r"running (\d+) test", text))
    # a failing playback shows up as a failed test, a panic message, an abort ("test exited abnormally"),
    # a signal or a stack overflow - in every case the test binary ran (nran > 0) and cargo exits non-zero
    failed = bool(re.search(r"test result: FAILED|panicked at|SIGSEGV|SIGABRT|stack overflow|signal: \d+|test exited abnormally|error: test failed", text)) \
        or (nran > 0 and rc not in (0, None))
    passed = bool(re.search(r"test result: ok\. [1-9]", text)) and rc == 0
    # a playback that runs out of recorded values took a different path natively than under Kani
    # (stubs and environment models do not exist natively): that is no reproduction
    if "Not enough det vals found" in text:
        failed = False
    return {"rc": rc, "ran": nran, "failed": failed and nran > 0, "passed": passed and not failed, "tail": "\n".join(text.splitlines()[-25:])}


def qualify_playback(h, test_src):
    """harnesses generated inside a sub-module of the harness file (`harness::k_native::u8x32`): the
    playback test is appended at the top level of that file, so the call needs the module path"""
    q = getattr(h, "qname", None) or ""
    parts = q.split("::")
    if len(parts) >= 3 and parts[0] == "harness":
        leaf, rel = parts[-1], "::".join(parts[1:])
        test_src = test_src.replace("concrete_playback_run(concrete_vals, %s)" % leaf, "concrete_playback_run(concrete_vals, %s)" % rel)
    return test_src


def replay_counterexample(h, r, scratch, prop, logdir):
    """Returns dict(reproduced, ub_only, path, detail)."""
    out_dir = os.path.join(VERIF, "replays")
    os.makedirs(out_dir, exist_ok=True)
    path = os.path.join(out_dir, "%s-%s.json" % (prop, h.name))
    crate_rel, _ = K.CRATES[h.crate]
    crate_dir = os.path.join(scratch, crate_rel)
    target = os.path.join(scratch, "target-" + h.crate)
    rec = {"property": prop, "harness": h.name, "crate": h.crate, "failed_checks": r["failed_checks"][:20],
           "functions": h.funcs, "bound": h.bound, "reproduced": False}
    # 1. ask CBMC for the concrete assignment
    log1 = os.path.join(logdir, h.name + ".playback-gen.log")
    base = list(r.get("extra_args") or h.args)
    # --cbmc-args must stay last
    if "--cbmc-args" in base:
        k = base.index("--cbmc-args")
        base = base[:k] + ["-Z", "concrete-playback", "--concrete-playback=print"] + base[k:]
    else:
        base = base + ["-Z", "concrete-playback", "--concrete-playback=print"]
    rc, _ = K.run_cargo_kani(crate_dir, target, h.name, log1, max(h.timeout, 600) * 2, h.mem_gb, base, qname=h.qname)
    text = open(log1, errors="replace").read()
    test_src, test_name = extract_playback(text)
    all_mem = all(any(m in (c["desc"] or "") for m in MEMORY_SAFETY_MARKERS) for c in r["failed_checks"]
                  if "unwinding" not in (c["desc"] or ""))
    if not test_src:
        rec["detail"] = "Kani produced no concrete playback test"
        rec["ub_only"] = False
        json.dump(rec, open(path, "w"), indent=1)
        return {"reproduced": False, "ub_only": False, "path": path, "detail": rec["detail"]}
    test_src = qualify_playback(h, test_src)
    rec["playback_test"] = test_src
    rec["playback_test_name"] = test_name
    # 2. compile it natively next to the harness and run it (dev, then release)
    hf = harness_file_of(h, scratch)
    outcome = {}
    if hf:
        with open(hf, "a") as f:
            f.write("\n" + test_src + "\n")
        for prof, rel in (("dev", False), ("release", True)):
            lg = os.path.join(logdir, "%s.playback-%s.log" % (h.name, prof))
            outcome[prof] = native_playback(crate_dir, test_name, rel, lg)
    rec["native"] = outcome
    if getattr(h, "native_replay", True) is False:
        # environment-model harness (the schedule / atomic outcomes live in a Kani-only model):
        # there is no native run that could replay the assignment; report from the solver trace
        rec["reproduced"] = False
        rec["ub_only"] = True
        rec["detail"] = ("environment-model harness: the counterexample is a schedule of the modelled atomic cell and cannot be "
                         "replayed natively; reported from the CBMC trace (values in playback_test)")
        json.dump(rec, open(path, "w"), indent=1)
        K.log("[replay] %s model-only harness, reported from the trace -> %s" % (h.name, path))
        return {"reproduced": False, "ub_only": True, "path": path, "detail": rec["detail"]}
    reproduced = any(o.get("failed") for o in outcome.values())
    rec["reproduced"] = reproduced
    rec["ub_only"] = (not reproduced) and all_mem and all(o.get("passed") for o in outcome.values()) and bool(outcome)
    if rec["ub_only"]:
        rec["detail"] = ("CBMC memory-safety check failed; the native run does not observe it (undefined behaviour that no "
                         "native run can confirm) - reported from the Kani trace, triage by reading")
    elif not reproduced:
        rec["detail"] = "native playback did not fail: " + "; ".join("%s: ran=%s" % (k, v.get("ran")) for k, v in outcome.items())
    else:
        rec["detail"] = "native playback fails (assertion/panic/abort) in: " + ",".join(k for k, v in outcome.items() if v.get("failed"))
    json.dump(rec, open(path, "w"), indent=1)
    K.log("[replay] %s reproduced=%s ub_only=%s -> %s" % (h.name, reproduced, rec["ub_only"], path))
    return {"reproduced": reproduced, "ub_only": rec["ub_only"], "path": path, "detail": rec["detail"]}


def replay_file(path):
    """Re-run a recorded counterexample against /repo's current tree. exit 1 if it still fails."""
    rec = json.load(open(path))
    if rec.get("kind") == "smt":
        from . import smt as SMT
        return SMT.replay_file(rec)
    import plan as PLAN
    h = PLAN.BY_NAME[rec["harness"]]
    scratch = "/var/tmp/sonic-verif-replay.%d" % os.getpid()
    try:
        K.prepare_scratch(scratch)
        crate_rel, _ = K.CRATES[h.crate]
        crate_dir = os.path.join(scratch, crate_rel)
        hf = harness_file_of(h, scratch)
        with open(hf, "a") as f:
            f.write("\n" + rec["playback_test"] + "\n")
        bad = False
        for prof, rel in (("dev", False), ("release", True)):
            o = native_playback(crate_dir, rec["playback_test_name"], rel, os.path.join(scratch, "replay-%s.log" % prof))
            print("replay %s [%s]: %s" % (rec["harness"], prof, "FAILS (violation reproduced)" if o["failed"] else "passes"))
            if o["failed"]:
                print(o["tail"])
                bad = True
        return 1 if bad else 0
    finally:
        shutil.rmtree(scratch, ignore_errors=True)
