"""Scratch-copy preparation and Kani/CBMC invocation for /verif/run_check.py.

Nothing here decides a property: it regenerates the encoding from /repo's current working
tree (rsync + module injection), runs `cargo kani` per harness in its own process group under
a memory and time cap, and parses the verdicts CBMC returned.
"""
import os, re, shutil, signal, subprocess, sys, time, json, resource

VERIF = os.path.dirname(os.path.dirname(os.path.abspath(__file__)))
REPO = os.environ.get("VERIF_REPO", "/repo")

# (source file relative to the scratch copy, harness file relative to <scratch>/harness, module name, visibility)
INJECT = [
    ("src/lib.rs", "common/refs.rs", "verif_refs", "pub(crate)"),
    ("src/lib.rs", "common/kmodels.rs", "verif_kmodels", "pub(crate)"),
    ("src/error.rs", "incrate/error.rs", "verif_kani_error", "pub(crate)"),
    ("src/parser.rs", "incrate/parser.rs", "verif_kani_parser", ""),
    ("src/parser.rs", "incrate/parser_walk.rs", "verif_kani_parser_walk", ""),
    ("src/parser.rs", "incrate/parser_str.rs", "verif_kani_parser_str", ""),
    ("src/reader.rs", "incrate/reader.rs", "verif_kani_reader", "pub(crate)"),
    ("src/util/string.rs", "incrate/string.rs", "verif_kani_string", ""),
    ("src/util/unicode.rs", "incrate/unicode.rs", "verif_kani_unicode", ""),
    ("src/value/node.rs", "incrate/node.rs", "verif_kani_node", ""),
    ("src/lazyvalue/value.rs", "incrate/lazy_value.rs", "verif_kani_lazy_value", "pub(crate)"),
    ("src/lazyvalue/owned.rs", "incrate/lazy_owned.rs", "verif_kani_lazy_owned", "pub(crate)"),
    ("src/lazyvalue/iterator.rs", "incrate/iterator.rs", "verif_kani_iterator", ""),
    ("src/serde/de.rs", "incrate/serde_de.rs", "verif_kani_serde_de", ""),
    ("src/serde/ser.rs", "incrate/serde_ser.rs", "verif_kani_serde_ser", ""),
    ("src/serde/number.rs", "incrate/serde_number.rs", "verif_kani_serde_number", ""),
    ("src/format.rs", "incrate/format.rs", "verif_kani_format", ""),
    ("src/writer.rs", "incrate/writer.rs", "verif_kani_writer", ""),
    ("src/util/arch/mod.rs", "incrate/arch.rs", "verif_kani_arch", ""),
    ("sonic-number/src/lib.rs", "common/refs.rs", "verif_refs", "pub(crate)"),
    ("sonic-number/src/lib.rs", "incrate/number.rs", "verif_kani_number", ""),
    ("sonic-simd/src/lib.rs", "incrate/simd.rs", "verif_kani_simd", ""),
]

# crate key -> (directory inside the scratch copy, cargo package)
CRATES = {
    "main": ("repo", "sonic-rs"),
    "number": ("repo/sonic-number", "sonic-number"),
    "simd": ("repo/sonic-simd", "sonic-simd"),
    "ext": ("ext", "verif-ext"),
}


def log(msg):
    sys.stderr.write(msg + "\n")
    sys.stderr.flush()


def prepare_scratch(scratch):
    """rsync /repo's working tree into <scratch>/repo and inject the harness modules."""
    t0 = time.time()
    os.makedirs(scratch, exist_ok=True)
    dst = os.path.join(scratch, "repo")
    # tools/run_seeded.py patches /repo for the moment a copy is taken; other runs wait for it
    lk = None
    if os.environ.get("VERIF_REPO_LOCKED") != "1":
        try:
            import fcntl
            lk = open("/tmp/verif-repo.lock", "a")
            fcntl.flock(lk, fcntl.LOCK_SH)
        except OSError:
            lk = None
    subprocess.run(
        ["rsync", "-a", "--delete", "--exclude", "/target", "--exclude", "/.git", "--exclude", "/assets",
         "--exclude", "/fuzz", "--exclude", "/docs", "--exclude", "/bindings", "--exclude", "/benchmarks/benches/testdata",
         "--exclude", "/benchmarks/target", "--exclude", "/examples", "--exclude", "/benches",
         REPO + "/", dst + "/"], check=True)
    if lk is not None:
        lk.close()
    hdst = os.path.join(scratch, "harness")
    if os.path.exists(hdst):
        shutil.rmtree(hdst)
    shutil.copytree(os.path.join(VERIF, "harness"), hdst)
    injected = []
    for src, hfile, mod, vis in INJECT:
        sp = os.path.join(dst, src)
        hp = os.path.join(hdst, hfile)
        if not os.path.exists(hp):
            continue
        if not os.path.exists(sp):
            raise RuntimeError("cannot instrument: %s does not exist in /repo" % src)
        with open(sp, "a") as f:
            f.write('\n#[cfg(kani)]\n#[path = "%s"]\n%s mod %s;\n' % (hp, vis, mod))
        injected.append((src, hfile, mod))
    # offline cargo config for every crate built in the scratch copy
    os.makedirs(os.path.join(scratch, ".cargo"), exist_ok=True)
    with open(os.path.join(scratch, ".cargo", "config.toml"), "w") as f:
        f.write("[net]\noffline = true\n")
    # external harness crate (backend files that cfg never selects on this target)
    ext_src = os.path.join(hdst, "ext")
    if os.path.isdir(ext_src):
        ext_dst = os.path.join(scratch, "ext")
        if os.path.exists(ext_dst):
            shutil.rmtree(ext_dst)
        shutil.copytree(ext_src, ext_dst)
        for root, _, files in os.walk(ext_dst):
            for fn in files:
                if fn.endswith((".rs", ".toml")):
                    p = os.path.join(root, fn)
                    s = open(p).read()
                    s2 = s.replace("@SCRATCH_REPO@", dst).replace("@SCRATCH_HARNESS@", hdst)
                    if s2 != s:
                        open(p, "w").write(s2)
        shutil.copy(os.path.join(dst, "Cargo.lock"), os.path.join(ext_dst, "Cargo.lock"))
    apply_shims(dst)
    # the Vec-operation models of the copying-decoder harness name `Vec<T, A>`: needs an unstable feature
    # gate at the crate root (cfg(kani) only; a prepended inner attribute, nothing else changes)
    lib = os.path.join(dst, "src", "lib.rs")
    body = open(lib).read()
    open(lib, "w").write("#![cfg_attr(kani, feature(allocator_api))]\n" + body)
    return {"scratch": scratch, "prepare_s": round(time.time() - t0, 2), "injected": injected}


def apply_shims(dst):
    """The only textual rewrites (not appends): documented in DESIGN.md, each must match exactly once."""
    shims = [
        # C18: route the two publish-once caches through an environment model of the atomic cell
        ("src/lazyvalue/value.rs", "        atomic::{AtomicPtr, Ordering},\n",
         "        atomic::Ordering,\n", "use crate::verif_atomic::AtomicPtr;\n"),
        ("src/lazyvalue/owned.rs", "    sync::atomic::{AtomicPtr, Ordering},\n",
         "    sync::atomic::Ordering,\n", "use crate::verif_atomic::AtomicPtr;\n"),
    ]
    hp = os.path.join(os.path.dirname(dst), "harness", "common", "atomic_shim.rs")
    if not os.path.exists(hp):
        return
    for rel, old, new, extra in shims:
        p = os.path.join(dst, rel)
        s = open(p).read()
        if s.count(old) != 1:
            raise RuntimeError("cannot instrument: atomics import pattern not found exactly once in " + rel)
        # cfg-gate: real atomics outside kani
        s = s.replace(old, new)
        s = "#[cfg(kani)]\n" + extra + "#[cfg(not(kani))]\nuse std::sync::atomic::AtomicPtr;\n" + s
        open(p, "w").write(s)
    with open(os.path.join(dst, "src/lib.rs"), "a") as f:
        f.write('\n#[cfg(kani)]\n#[path = "%s"]\npub(crate) mod verif_atomic;\n' % hp)


_QN_CACHE = {}


def qualified_name(name):
    """Fully qualified harness path (module path of the injected file + module name + fn name)."""
    if name in _QN_CACHE:
        return _QN_CACHE[name]
    pat = re.compile(r"\bfn %s\s*\(" % re.escape(name))
    pat2 = re.compile(r"\b%s\b" % re.escape(name))  # harnesses generated by macro_rules!
    cands = [(src, hfile, mod) for src, hfile, mod, _v in INJECT if os.path.exists(os.path.join(VERIF, "harness", hfile))]
    hit = [c for c in cands if pat.search(open(os.path.join(VERIF, "harness", c[1])).read())]
    if not hit:
        hit = [c for c in cands if pat2.search(open(os.path.join(VERIF, "harness", c[1])).read())]
    for src, hfile, mod in hit[:1]:
        rel = src.split("src/", 1)[1][:-3]  # e.g. util/string, lib, util/arch/mod
        parts = [x for x in rel.split("/") if x not in ("lib", "mod")]
        q = "::".join(parts + [mod, name])
        _QN_CACHE[name] = q
        return q
    _QN_CACHE[name] = name
    return name


_CHECK_RE = re.compile(r"^Check (\d+): (.+?)\s*$")


def parse_kani_log(text):
    """Extract verdict, failed checks, cover results and timing from a cargo-kani log."""
    res = {"verdict": None, "failed_checks": [], "covers": {"satisfied": 0, "unsatisfiable": 0, "unreachable": 0},
           "checks_total": None, "checks_failed": None, "verification_time_s": None, "unwinding_failed": False,
           "stubs": [], "unsupported": [], "cover_details": []}
    lines = text.splitlines()
    cur = None
    for i, ln in enumerate(lines):
        m = _CHECK_RE.match(ln)
        if m:
            cur = {"id": m.group(2), "status": None, "desc": None, "loc": None}
            continue
        if cur is not None:
            s = ln.strip()
            if s.startswith("- Status:"):
                cur["status"] = s.split(":", 1)[1].strip()
            elif s.startswith("- Description:"):
                cur["desc"] = s.split(":", 1)[1].strip().strip('"')
            elif s.startswith("- Location:"):
                cur["loc"] = s.split(":", 1)[1].strip()
                st = cur["status"]
                if ".cover." in cur["id"] or (cur["desc"] or "").startswith("cover condition"):
                    key = {"SATISFIED": "satisfied", "UNSATISFIABLE": "unsatisfiable", "UNREACHABLE": "unreachable"}.get(st)
                    if key:
                        res["covers"][key] += 1
                    res["cover_details"].append({"loc": cur["loc"], "status": st})
                elif st == "FAILURE":
                    res["failed_checks"].append(cur)
                    if "unwinding assertion" in (cur["desc"] or ""):
                        res["unwinding_failed"] = True
                elif st and st.startswith("UNDETERMINED"):
                    res.setdefault("undetermined", 0)
                    res["undetermined"] += 1
                cur = None
        s = ln.strip()
        if s.startswith("** ") and " failed" in s:
            m2 = re.match(r"\*\* (\d+) of (\d+) failed", s)
            if m2:
                res["checks_failed"] = int(m2.group(1))
                res["checks_total"] = int(m2.group(2))
        if s.startswith("** ") and "cover properties satisfied" in s:
            m2 = re.match(r"\*\* (\d+) of (\d+) cover properties satisfied", s)
            if m2:
                res["covers_satisfied_summary"] = (int(m2.group(1)), int(m2.group(2)))
        if s.startswith("VERIFICATION:-"):
            res["verdict"] = s.split(":-", 1)[1].strip()
        if s.startswith("Verification Time:"):
            try:
                res["verification_time_s"] = float(s.split(":", 1)[1].strip().rstrip("s"))
            except ValueError:
                pass
        if s.startswith("- Stub:") or s.startswith("Stub:"):
            res["stubs"].append(s)
        if "is not currently supported by Kani" in s or "unsupported_construct" in s:
            if len(res["unsupported"]) < 5:
                res["unsupported"].append(s[:200])
    return res


def _preexec(mem_gb):
    def fn():
        os.setsid()
        if mem_gb:
            lim = int(mem_gb * (1 << 30))
            resource.setrlimit(resource.RLIMIT_AS, (lim, lim))
    return fn


def run_cargo_kani(crate_dir, target_dir, harness, logfile, timeout_s, mem_gb, extra_args=(), env_extra=None, qname=None):
    """Run one harness. Returns (returncode|None on timeout, wall seconds)."""
    cmd = ["cargo", "kani", "--harness", qname or qualified_name(harness), "--exact", "-Z", "stubbing", "--target-dir", target_dir] + list(extra_args)
    env = dict(os.environ)
    env["CARGO_NET_OFFLINE"] = "true"
    env.pop("RUSTFLAGS", None)
    env.pop("RUSTC_WRAPPER", None)
    if env_extra:
        env.update(env_extra)
    t0 = time.time()
    with open(logfile, "w") as lf:
        lf.write("$ (cd %s && %s)\n" % (crate_dir, " ".join(cmd)))
        lf.flush()
        p = subprocess.Popen(cmd, cwd=crate_dir, stdout=lf, stderr=subprocess.STDOUT, env=env,
                             preexec_fn=_preexec(mem_gb))
        try:
            rc = p.wait(timeout=timeout_s)
        except subprocess.TimeoutExpired:
            rc = None
        finally:
            # a timed-out cargo-kani leaves its cbmc child running: kill the whole group
            try:
                os.killpg(p.pid, signal.SIGKILL)
            except ProcessLookupError:
                pass
            try:
                p.wait(timeout=10)
            except Exception:
                pass
    return rc, time.time() - t0


def find_goto_binary(target_dir, leaf):
    """Kani leaves one GOTO binary per harness: <crate>-<hash>__<mangled path ending in <len><leaf>>.out"""
    suffix = "%d%s.out" % (len(leaf), leaf)
    best = None
    for root, _, files in os.walk(target_dir):
        for fn in files:
            if fn.endswith(suffix) and not fn.endswith(".symtab.out"):
                p = os.path.join(root, fn)
                if best is None or os.path.getmtime(p) > os.path.getmtime(best):
                    best = p
    return best


_LOOP_RE = re.compile(r"^Loop (\S+):\s*$")


def resolve_unwindset(goto_binary, spec):
    """spec: list of (function substring, ordinal or None, bound). The ordinal counts the loops of that
    function in *source-line order* (0 = first loop in the text); CBMC's own numbering is not source order.
    Loop identifiers are resolved on every run from `cbmc --show-loops` (they carry mangled names)."""
    # kani-driver merges multiple back edges per loop (goto-instrument --ensure-one-backedge-per-target) before it
    # calls cbmc, which renumbers the loops of a function; resolve identifiers on a copy treated the same way
    merged = goto_binary + ".loops.tmp"
    gi = subprocess.run(["goto-instrument", "--ensure-one-backedge-per-target", goto_binary, merged], capture_output=True, text=True)
    src = merged if gi.returncode == 0 and os.path.exists(merged) else goto_binary
    out = subprocess.run(["cbmc", "--show-loops", src], capture_output=True, text=True).stdout.splitlines()
    try:
        os.remove(merged)
    except OSError:
        pass
    loops = []
    for i, ln in enumerate(out):
        m = _LOOP_RE.match(ln)
        if m and i + 1 < len(out):
            fm = re.search(r" function (.*)$", out[i + 1])
            lm = re.search(r" line (\d+)", out[i + 1])
            loops.append((m.group(1), fm.group(1) if fm else "", int(lm.group(1)) if lm else 0))
    chosen = {}
    unmatched = []
    for entry in spec:
        fsub, ordinal, bound = entry[0], entry[1], entry[2]
        with_line0 = entry[3] if len(entry) > 3 else True
        cands = sorted([l for l in loops if fsub in l[1]], key=lambda l: (l[1], l[2], l[0]))
        # ordinal within each distinct function name
        by_fn = {}
        for l in cands:
            by_fn.setdefault(l[1], []).append(l)
        hit = False
        for fn, ls in by_fn.items():
            # rank by *distinct source line*: a `continue` gives a second back edge (a second CBMC loop)
            # at the same line, and all loops of the selected line get the bound
            lines = sorted({l[2] for l in ls if l[2] > 0})
            for l in ls:
                if l[2] == 0:
                    continue
                k = lines.index(l[2])
                if ordinal is None or ordinal == k or (ordinal < 0 and ordinal == k - len(lines)):
                    chosen[l[0]] = max(bound, chosen.get(l[0], 0))
                    hit = True
            if hit and with_line0:
                # back edges without a source line (`continue` inside one of the loops): CBMC does not say
                # which loop they belong to, so they get the bound as well
                for l in ls:
                    if l[2] == 0:
                        chosen[l[0]] = max(bound, chosen.get(l[0], 0))
        if not hit:
            unmatched.append((fsub, ordinal))
    if os.environ.get("VERIF_DEBUG_LOOPS"):
        for l in loops:
            if any(e[0] in l[1] for e in spec):
                log("[loops] %s line %d -> %s  (%s)" % (l[1][-60:], l[2], chosen.get(l[0]), l[0][-30:]))
    return chosen, unmatched, len(loops)
