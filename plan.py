"""Which harnesses decide which property, at which tier, under which bounds.

Every entry names the real functions the harness encodes (compiled from /repo's current tree
at run time), the bound inside which CBMC's verdict holds, every stub/cut that is part of the
claim, and `cost` = the solver seconds measured on the unchanged tree in this sandbox
(16 cores otherwise idle). The quick tier only contains harnesses with cost <= ~250 s so that
every property's quick check stays far below 15 minutes; the thorough tier adds the larger
bounds. run_check.py copies these entries into the evidence file together with what the run
measured.
"""

CUT_SYNTAX = "cut: Error::syntax -> code+index only (snippet rendering is decided by u_error_syntax_n6)"
MAXEPU8 = "env model: _mm_max_epu8 lane-wise (Kani lacks simd_select); validated natively by selftest"
CUT_FMT = "cut: core::fmt::write / alloc::fmt::format -> no-op (subject is not formatting)"
M_WS = "contract model: Parser::skip_space -> first non-whitespace byte (justified by u_skip_space_n6)"
M_STR = "contract model: Parser::skip_string -> RFC 8259 string recogniser (justified by u_skip_string_n8)"
M_NUM = "contract model: Parser::skip_number -> RFC 8259 number recogniser (justified by u_skip_number_n5/n6)"
M_ONE = ("contract model: Parser::skip_one -> whitespace + abstract value recogniser E (symbolic table = induction hypothesis; "
         "dispatch decided by m_skip_one_dispatch_n7)")
M_NEST = ("contract model: Parser::skip_array/skip_object -> abstract recogniser E (induction hypothesis; steps decided by "
          "m_skip_array_n6 / m_skip_object_n6)")
CUT_PIT = "cut: Parser::peek_invalid_type -> type-mismatch error without re-parsing the offending value"
CUT_FIX = "cut: Parser::fix_position -> identity (error rendering is not the subject)"
M_KEY = ("contract model: Parser::parse_string_raw / parse_str -> borrowed span, escape-free keys only (justified by "
         "u_parse_string_raw_borrowed_n8); keys with escapes assumed away")
M_DOMSTR = ("contract model: Parser::parse_string_owned / parse_string_inplace -> RFC 8259 string recogniser + string event "
            "(decoding itself is C09's subject)")
M_DOMVAL = "contract model: Parser::parse_value / parse_value2 -> whitespace + abstract value recogniser E + value event (induction hypothesis)"
ATOMIC = ("env model: AtomicPtr of lazyvalue/value.rs and owned.rs -> harness/common/atomic_shim.rs (other reader may publish at every "
          "atomic step; compare_exchange_weak may fail spuriously; sequentially consistent)")
CUT_DROP = ("cut: core::mem::drop -> forget (the recursive drop glue of Parsed/OwnedLazyValue exhausts memory; which decoding is "
            "returned/cached is decided, that a box is freed is not)")
CUT_LOAD = "cut: Parser::load_owned_lazyvalue -> fixed decoding Bool(true); Read::from -> empty reader (unused by the cut parser)"
CUT_PF = "cut: sonic_number::parse_float -> nondeterministic Ok(Float)/Err(FloatMustBeFinite) (classification and index only)"
INTR = "env models (lane-wise from the Intel pseudo-code): "


class H:
    def __init__(self, name, crate, props, funcs, bound, tier="quick", cost=None, timeout=None, mem_gb=12, exp_gb=3, stubs=(),
                 args=(), expect="pass", finding=None, qname=None, unwindset=None, native_replay=True):
        self.name = name
        self.crate = crate
        self.props = props
        self.funcs = funcs
        self.bound = bound
        self.tier = tier  # 'quick' (runs in both tiers) or 'thorough'
        self.cost = cost
        self.timeout = timeout or (900 if tier == "quick" else 3600)
        self.mem_gb = mem_gb
        self.exp_gb = exp_gb
        self.stubs = list(stubs)
        self.args = list(args)
        self.expect = expect  # 'pass' | 'known-fail' (harness encodes a listed known finding)
        self.finding = finding
        self.qname = qname
        self.unwindset = unwindset
        self.native_replay = native_replay


T = "thorough"
HARNESSES = []


def add(*hs):
    HARNESSES.extend(hs)


# ================= src/parser.rs : kernels and scanners ==========================================
add(
    H("k_escaped_u64", "main", ["C10"], ["parser::get_escaped_branchless_u64"], "all 2^64 backslash masks x both carry values (complete)", cost=1),
    H("k_escaped_u32", "main", ["C10"], ["parser::get_escaped_branchless_u32"], "all 2^32 backslash masks x both carry values (complete)", cost=1),
    H("k_is_whitespace", "main", ["C02", "C10"], ["parser::is_whitespace"], "all 256 bytes (complete)", cost=1),
    H("u_skip_string_n8", "main", ["C02", "C14", "C09", "C01"],
      ["Parser::skip_string", "Parser::skip_escaped_chars", "Read::{peek,peek_n,next,next_n,eat,remain}"],
      "every byte string of length <= 8 after an opening quote (scalar path)", stubs=[CUT_SYNTAX], cost=70),
    H("u_skip_number_unchecked_span_n7", "main", ["C12", "C13", "C10"], ["Parser::skip_number_unsafe (the number arm of skip_one_unchecked)", "Parser::get_next_token", "parser::is_whitespace"],
      "every buffer of length <= 7 that starts with a well-formed number followed by blanks and a separator or the end: the reader stops exactly at the end of the number", stubs=[CUT_SYNTAX], cost=60),
    H("u_skip_number_n5", "main", ["C02", "C14", "C08", "C01"], ["Parser::do_skip_number", "Parser::skip_exponent", "Parser::skip_single_digit"],
      "every byte string of length <= 5 starting with '-' or a digit (scalar path)", stubs=[CUT_SYNTAX], cost=257),
    H("u_skip_number_n6", "main", ["C02", "C14", "C08"], ["Parser::do_skip_number", "Parser::skip_exponent", "Parser::skip_single_digit"],
      "every byte string of length <= 6 starting with '-' or a digit (scalar path)", stubs=[CUT_SYNTAX], tier=T, cost=240),
    H("u_skip_number_n8", "main", ["C02", "C14", "C08"], ["Parser::do_skip_number", "Parser::skip_exponent", "Parser::skip_single_digit"],
      "every byte string of length <= 8 starting with '-' or a digit (scalar path)", stubs=[CUT_SYNTAX], tier=T, cost=600),
    H("u_skip_space_n6", "main", ["C02", "C10", "C14", "C01"], ["Parser::skip_space"],
      "every buffer of length <= 6 x every start index (scalar paths)", cost=60),
    H("u_literal_n6", "main", ["C02", "C14"], ["Parser::parse_literal"], "every byte string of length <= 6 starting with t/f/n", stubs=[CUT_SYNTAX], cost=3),
    H("u_skip_string_unchecked_n8", "main", ["C10", "C01"], ["Parser::skip_string_unchecked"],
      "every buffer of length <= 8 that starts with a well-formed string literal body", stubs=[CUT_SYNTAX], cost=25),
    H("u_get_next_token_n6", "main", ["C10", "C01"], ["Parser::get_next_token::<2>"],
      "every buffer of length <= 6 x every start index x advance in {0,1}; tokens {'\"','}'}", cost=110),
    H("u_parse_trailing_n6", "main", ["C02"], ["Parser::parse_trailing (bounds-checked reader)"], "every buffer of length <= 6 x every start index", stubs=[CUT_SYNTAX], cost=50),
    H("u_parse_object_clo_n6", "main", ["C02", "C14"], ["Parser::parse_object_clo"], "every buffer of length <= 6 x every start index", stubs=[CUT_SYNTAX], cost=50),
    H("u_skip_container_tail_n8", "main", ["C10", "C01"], ["Parser::skip_container (zero-padded tail block)", "parser::skip_container_loop", "parser::get_string_bits"],
      "every buffer of length <= 8 without a backslash outside strings x {array, object}", stubs=[CUT_SYNTAX], cost=145, exp_gb=6),
)

# block (SIMD) paths: windowed buffers, per-loop bounds
add(
    H("b_skip_string_unchecked_w27", "main", ["C10", "C12", "C01"], ["Parser::skip_string_unchecked (32-byte block path, escape carry between blocks)", "get_escaped_branchless_u32"],
      "64-byte buffer: neutral 'x' except a 10-byte symbolic window at 27..37 (across the block edge) and a closing quote at 40; well-formed literals only",
      stubs=[CUT_SYNTAX], cost=90, exp_gb=6,
      unwindset=[("ref_string_end", None, 66), ("ref_has_backslash", None, 66), ("windowed", None, 12), ("::skip_string_unchecked", -1, 6)]),
    H("b_skip_string_unchecked_tail_w27", "main", ["C10", "C12", "C13", "C01"], ["Parser::skip_string_unchecked (block loop, then the scalar tail with the escape carry)"],
      "40-byte buffer: neutral 'x' except a 10-byte symbolic window at 27..37 and a closing quote at 38; well-formed literals only",
      stubs=[CUT_SYNTAX], cost=95, exp_gb=6,
      unwindset=[("ref_string_end", None, 50), ("ref_has_backslash", None, 50), ("windowed", None, 12), ("::skip_string_unchecked", -1, 16)]),
    H("b_get_next_token_w28", "main", ["C10"], ["Parser::get_next_token::<2> (32-byte block loop + tail)"],
      "40-byte buffer: neutral 'x' except an 8-byte symbolic window at 28..36; tokens {'\"','}'}; advance in {0,1}",
      cost=70, exp_gb=6, unwindset=[("windowed", None, 10), ("::get_next_token", -2, 12), ("b_get_next_token_w28", None, 42)]),
    H("b_skip_number_w30", "main", ["C02", "C14", "C08"], ["Parser::do_skip_number (32-byte block path, is_float carry, exponent inside a block)", "i8x32::{gt,bitmask}"],
      "66-byte buffer of digits with a 6-byte symbolic window at 30..36 (lanes 28..31 of the first chunk and 0..1 of the next) and a comma at 44",
      stubs=[CUT_SYNTAX], cost=185, exp_gb=8, mem_gb=20,
      unwindset=[("ref_number_end", None, 48), ("windowed", None, 8), ("::do_skip_number", -1, 14, False), ("::do_skip_number", -2, 14, False), ("::skip_exponent", None, 16)]),
    H("b_skip_string_w29", "main", ["C02", "C14", "C09"], ["Parser::skip_string (32-byte block path + tail)", "Parser::skip_escaped_chars", "u8x32::{eq,le,bitmask}"],
      "38-byte buffer: neutral 'x' except a 6-byte symbolic window at 29..35 (across the block edge) and a closing quote at 36",
      stubs=[CUT_SYNTAX, MAXEPU8], tier=T, cost=520, exp_gb=8, mem_gb=20,
      unwindset=[("::skip_string", -1, 10), ("ref_string_end", None, 40), ("ref_has_backslash", None, 40), ("windowed", None, 8), ("skip_escaped_chars", None, 6)]),
    H("b_skip_space_cache_w2", "main", ["C02", "C10", "C14"], ["Parser::skip_space (64-byte block path, non-space bitmap cache fast path)", "util::arch::fallback::get_nonspace_bits"],
      "80-byte buffer: two leading whitespace bytes, a 10-byte symbolic window at 2..12, neutral 'x' elsewhere; three consecutive calls",
      tier=T, cost=940, exp_gb=6,
      unwindset=[("get_nonspace_bits", None, 66), ("ref_skip_ws", None, 16), ("windowed", None, 12), ("::skip_space", -1, 16), ("b_skip_space_cache_w2", None, 5)]),
)
add(H("k_block_step_head_arr", "main", ["C10"], ["parser::skip_container_loop", "parser::get_string_bits", "get_escaped_branchless_u64", "prefix_xor (fallback)", "u8x64::eq/bitmask"],
      "every carry state (in-string, pending escape, counters < 2^20; no backslash outside strings) x every 64-byte block whose first three bytes are symbolic and the rest neutral ('x')",
      cost=120, exp_gb=5, unwindset=[("ref_block_step", None, 66)]))
for _n, _w in (("k_block_step_obj_w0", 0), ("k_block_step_arr_w16", 16), ("k_block_step_obj_w32", 32), ("k_block_step_arr_w48", 48)):
    add(H(_n, "main", ["C10"], ["parser::skip_container_loop", "parser::get_string_bits", "get_escaped_branchless_u64", "prefix_xor (fallback)", "u8x64::eq/bitmask"],
          "every carry state (in-string, pending escape, counters < 2^20; no backslash outside strings) x every 64-byte block that is symbolic in the "
          "16-byte window at offset %d and neutral ('x') elsewhere" % _w, tier=T, cost=1300, exp_gb=6,
          unwindset=[("ref_block_step", None, 66), ("windowed", None, 18), ("block_step_body", None, 18)]))

# modular steps of the validating skipper
add(
    H("m_skip_array_n6", "main", ["C02", "C14", "C12"], ["Parser::skip_array", "Parser::skip_space_peek"],
      "every buffer of length <= 6 after '[' x every element recogniser E (symbolic table)", stubs=[CUT_SYNTAX, M_WS, M_ONE], cost=60),
    H("m_skip_object_n6", "main", ["C02", "C14", "C12"], ["Parser::skip_object", "Parser::parse_object_clo"],
      "every buffer of length <= 6 after '{' x every E", stubs=[CUT_SYNTAX, M_WS, M_STR, M_ONE], cost=280),
    H("m_skip_object_n7", "main", ["C02", "C14"], ["Parser::skip_object", "Parser::parse_object_clo"],
      "every buffer of length <= 7 after '{' x every E", stubs=[CUT_SYNTAX, M_WS, M_STR, M_ONE], tier=T, cost=330),
    H("m_skip_one_dispatch_n7", "main", ["C02", "C14", "C13", "C01", "C10"], ["Parser::skip_one", "nested! (depth budget)", "Parser::parse_literal"],
      "every buffer of length <= 7 x every start index x every budget d in 1..=255 x every nested recogniser E",
      stubs=[CUT_SYNTAX, M_WS, M_STR, M_NUM, M_NEST], cost=125),
    H("m_get_array_checked_n6", "main", ["C10", "C14"], ["Parser::get_from_array_checked", "Parser::skip_space_peek"],
      "every buffer of length <= 6 x index 0..=3 x every E", stubs=[CUT_SYNTAX, M_WS, M_ONE, CUT_PIT], cost=240),
    H("m_get_array_checked_n7", "main", ["C10", "C14"], ["Parser::get_from_array_checked", "Parser::skip_space_peek"],
      "every buffer of length <= 7 x index 0..=3 x every E", stubs=[CUT_SYNTAX, M_WS, M_ONE, CUT_PIT], tier=T, cost=280),
    H("m_get_object_checked_n6", "main", ["C10", "C14"], ["Parser::get_from_object_checked", "Parser::parse_object_clo"],
      "every buffer of length <= 6 x every escape-free ASCII key of length <= 2 x every E", stubs=[CUT_SYNTAX, M_WS, M_ONE, M_KEY, CUT_PIT], cost=290, mem_gb=24, exp_gb=5),
    H("m_get_object_checked_n7", "main", ["C10", "C14"], ["Parser::get_from_object_checked", "Parser::parse_object_clo"],
      "every buffer of length <= 7 x every escape-free ASCII key of length <= 2 x every E", stubs=[CUT_SYNTAX, M_WS, M_ONE, M_KEY, CUT_PIT], tier=T, cost=400),
    H("m_get_object_checked_n9", "main", ["C10", "C14"], ["Parser::get_from_object_checked", "Parser::parse_object_clo"],
      "every buffer of length <= 9 x every escape-free ASCII key of length <= 2 x every E", stubs=[CUT_SYNTAX, M_WS, M_ONE, M_KEY, CUT_PIT], tier=T, cost=760),
    H("m_array_elem_lazy_n7", "main", ["C12", "C14"], ["Parser::parse_array_elem_lazy (check = true)", "Parser::skip_space_peek"],
      "every buffer of length <= 7 x every start index x first in {true,false} x every E", stubs=[CUT_SYNTAX, M_WS, M_ONE], cost=125),
    H("m_entry_lazy_n7", "main", ["C12", "C14"], ["Parser::parse_entry_lazy (check = true)", "Parser::parse_object_clo"],
      "every buffer of length <= 7 x every start index x first in {true,false} x every E; escape-free keys", stubs=[CUT_SYNTAX, M_WS, M_ONE, M_KEY], cost=175),
    H("m_entry_lazy_n9", "main", ["C12", "C14"], ["Parser::parse_entry_lazy (check = true)", "Parser::parse_object_clo"],
      "every buffer of length <= 9 x every start index x first in {true,false} x every E; escape-free keys", stubs=[CUT_SYNTAX, M_WS, M_ONE, M_KEY], tier=T, cost=275),
    H("u_parser_error_clamp_n6", "main", ["C20", "C01"], ["Parser::error", "Parser::error_index"],
      "every buffer of length <= 6 x every reader index x every recorded error index (usize)", stubs=[CUT_SYNTAX], cost=2),
    H("u_parser_error_clamp_padded_n6", "main", ["C20", "C01"], ["Parser::error (PaddedSliceRead)", "PaddedSliceRead::{index,set_index,as_u8_slice}"],
      "6-byte document + 64-byte padding x every cursor position inside the padded buffer x every recorded error index", stubs=[CUT_SYNTAX], cost=1),
    H("u_parse_trailing_padded_n6", "main", ["C02", "C01"], ["Parser::parse_trailing (PaddedSliceRead: `x\"x` sentinel)", "Parser::skip_space (padded reader)", "get_nonspace_bits"],
      "6-byte symbolic document + the 64-byte padding of parse_with_padding x every cursor position 0..=len+2",
      stubs=[CUT_SYNTAX], exp_gb=6, cost=170, unwindset=[("get_nonspace_bits", None, 66), ("ref_skip_ws", None, 8), ("padded", None, 8), ("::skip_space", -1, 8)]),
    H("k_padded_reader_ops", "main", ["C01"], ["PaddedSliceRead::{new,set_index,index,remain,peek,at,next_n,backward,eat,slice_unchecked,as_u8_slice}"],
      "6-byte document + 64-byte padding x every cursor position inside the padded buffer", unwindset=[("padded", None, 8)]),
    H("m_number_visit_raw_n7", "main", ["C03", "C08"], ["Parser::parse_number_visit (copying DOM driver, use_rawnumber)", "Parser::parse_number_inplace (in-place DOM driver, use_rawnumber)"],
      "every buffer of length <= 7 x every start index of a number x both drivers", stubs=[CUT_SYNTAX, M_NUM], cost=110),
)

# DOM drivers: event streams
add(
    H("m_dom_object2_n6", "main", ["C03", "C02"], ["Parser::parse_object2 (copying DOM driver)", "Parser::parse_object_clo"],
      "every buffer of length <= 6 after '{' x every E; whole event stream compared", stubs=[CUT_SYNTAX, M_WS, M_DOMSTR, M_DOMVAL], cost=190),
    H("m_dom_object_n6", "main", ["C02", "C03"], ["Parser::parse_object (in-place DOM driver)", "Parser::parse_object_clo"],
      "every buffer of length <= 6 after '{' x every E; whole event stream compared", stubs=[CUT_SYNTAX, M_WS, M_DOMSTR, M_DOMVAL], cost=190),
    H("m_dom_object2_n7", "main", ["C03", "C02"], ["Parser::parse_object2 (copying DOM driver)", "Parser::parse_object_clo"],
      "every buffer of length <= 7 after '{' x every E; whole event stream compared", stubs=[CUT_SYNTAX, M_WS, M_DOMSTR, M_DOMVAL], tier=T, cost=345),
    H("m_dom_object_n7", "main", ["C02", "C03"], ["Parser::parse_object (in-place DOM driver)", "Parser::parse_object_clo"],
      "every buffer of length <= 7 after '{' x every E; whole event stream compared", stubs=[CUT_SYNTAX, M_WS, M_DOMSTR, M_DOMVAL], tier=T, cost=375),
    H("m_dom_object2_n8", "main", ["C02", "C03"], ["Parser::parse_object2 (copying DOM driver)", "Parser::parse_object_clo"],
      "every buffer of length <= 8 after '{' x every E; whole event stream compared", stubs=[CUT_SYNTAX, M_WS, M_DOMSTR, M_DOMVAL], tier=T, cost=355),
    H("m_dom_object_n8", "main", ["C02", "C03"], ["Parser::parse_object (in-place DOM driver)", "Parser::parse_object_clo"],
      "every buffer of length <= 8 after '{' x every E; whole event stream compared", stubs=[CUT_SYNTAX, M_WS, M_DOMSTR, M_DOMVAL], tier=T, cost=355),
)

# ================= string decoding ================================================================
add(
    H("k_unicode_copying", "main", ["C09", "C02"], ["Parser::parse_escaped_utf8", "codepoint_to_utf8 (caller's validity test)"],
      "every buffer of length <= 10 after `\\u` (all truncations) x {strict, lossy}", stubs=[CUT_SYNTAX], cost=14),
    H("u_parse_string_raw_borrowed_n8", "main", ["C09", "C02", "C10"], ["Parser::parse_string_raw (escape-free branch)"],
      "every buffer of length <= 8 after the opening quote with no backslash before the closing quote",
      stubs=[CUT_SYNTAX, MAXEPU8, "cut: parse_string_escaped must not be entered (asserted)"], cost=35),
    H("b_parse_string_raw_borrowed_w28", "main", ["C09", "C02", "C10"], ["Parser::parse_string_raw (32-byte block loop + tail, escape-free)", "StringBlock"],
      "40-byte buffer after the opening quote: neutral 'x' except an 8-byte symbolic window at 28..36 without a backslash, closing quote at 38",
      stubs=[CUT_SYNTAX, MAXEPU8, "cut: parse_string_escaped must not be entered (asserted)"], cost=160, exp_gb=6,
      unwindset=[("ref_string_end", None, 42), ("::parse_string_raw", -1, 12), ("b_parse_string_raw_borrowed_w28", None, 10)]),
)

# ================= src/util/string.rs, unicode.rs =================================================
add(
    H("u_read_from_faststr_outlives_reader", "main", ["C01", "C12", "C13"], ["Read::from::<&FastStr>", "<&FastStr as JsonInput>::to_json_slice", "PinnedInput::from / as_ptr", "Read::slice"],
      "inlined FastStr of two symbolic ASCII bytes: every byte handed out for 'de reads back after the reader is dropped", cost=30),
    H("u_read_from_faststr_shared_outlives_reader", "main", ["C01", "C12", "C13"], ["Read::from::<&FastStr>", "<&FastStr as JsonInput>::to_json_slice", "PinnedInput::from / as_ptr", "Read::slice"],
      "a 28-byte FastStr in the Arc<String> representation and `[1]` in the static one: every byte handed out for 'de reads back after the reader is dropped", cost=30),
    H("k_string_block", "main", ["C09", "C02"], ["StringBlock::new", "StringBlock::{has_unescaped,has_quote_first,has_backslash,quote_index,bs_index,unescaped_index}", "BitMask::before/first_offset"],
      "all 32-byte blocks (complete)", stubs=[MAXEPU8], cost=40),
    H("k_string_tables", "main", ["C05", "C09"], ["ESCAPED_TAB", "QUOTE_TAB", "NEED_ESCAPED"], "all 256 bytes (complete)", cost=1),
    H("k_check_cross_page", "main", ["C01", "C05"], ["check_cross_page"], "all pointers <= usize::MAX-64 (complete)", cost=1),
    H("u_format_string_n3", "main", ["C05", "C01"], ["format_string", "escape_unchecked", "escaped_mask", "check_cross_page"],
      "every byte string of length <= 3 (superset of valid UTF-8), with and without quotes; tail path (n < 32)", stubs=[MAXEPU8, CUT_FMT], mem_gb=20, exp_gb=8, cost=315),
    H("u_format_string_n4", "main", ["C05"], ["format_string", "escape_unchecked", "escaped_mask", "check_cross_page"],
      "every byte string of length <= 4, with and without quotes", stubs=[MAXEPU8, CUT_FMT], tier=T, cost=430, mem_gb=20, exp_gb=8),
    H("u_format_string_n6", "main", ["C05"], ["format_string", "escape_unchecked", "escaped_mask", "check_cross_page"],
      "every byte string of length <= 6, with and without quotes", stubs=[MAXEPU8, CUT_FMT], tier=T, cost=730, mem_gb=32, exp_gb=16),
    H("k_hex_to_u32", "main", ["C09", "C01"], ["hex_to_u32_nocheck", "DIGIT_TO_VAL32"], "all 2^32 four-byte groups (complete)", cost=1),
    H("k_codepoint_to_utf8", "main", ["C09", "C01"], ["codepoint_to_utf8"], "all u32 code points (complete)", cost=1),
    H("k_unicode_inplace", "main", ["C09", "C01"], ["handle_unicode_codepoint_mut", "repr_utf16_surrogate", "hex_to_u32_nocheck", "codepoint_to_utf8"],
      "all 2^80 sequences `\\uXXXX` + 6 following bytes x {strict, lossy} (complete for one escape sequence / surrogate pair)", cost=10),
)

# ================= error.rs / reader.rs ===========================================================
add(
    H("u_error_syntax_n6", "main", ["C20", "C01"], ["Error::syntax", "Position::from_index"], "every input of length <= 6 x every index <= len",
      stubs=["cut: alloc::fmt::format, String::from_utf8_lossy, str::repeat -> empty (snippet text only; window arithmetic real)"], cost=5),
    H("u_error_classify", "main", ["C20"], ["Error::classify", "Error::is_not_found"], "all 27 data-free error codes (complete)", cost=1),
    H("k_position_from_index_n8", "main", ["C20"], ["reader::Position::from_index"], "every buffer of length <= 8 x every index (usize)", cost=2),
    H("u_utf8_deferred_verdict_n6", "main", ["C02", "C20"], ["Read::check_utf8_final", "Read::next_invalid_utf8", "error::invalid_utf8"],
      "every buffer of length <= 6 x every position of the first invalid byte (the verdict itself comes from simdutf8, trusted)", stubs=[CUT_SYNTAX], cost=2),
)

# ================= value/node.rs ==================================================================
add(
    H("k_meta_roundtrip_idx_lt_2p29", "main", ["C03", "C01"], ["Meta::pack_dom_node", "Meta::unpack_dom_node", "Meta::get_kind", "Meta::get_type", "Meta::unpack_strlen"],
      "all four dom kinds x all idx < 2^29 x all len: u32 (complete for the field width)", cost=1),
    H("k_meta_roundtrip_idx_ge_2p29", "main", ["C03", "C01"], ["Meta::pack_dom_node", "Meta::unpack_dom_node"],
      "all idx in [2^29, 2^31) x all len: u32 - the region of known finding F6", expect="known-fail", finding="F6", cost=1),
    H("k_meta_root_tag", "main", ["C03"], ["Meta::new", "Meta::get_kind", "Meta::unpack_root"], "every 8-aligned address (complete)", cost=1),
    H("k_meta_static_types", "main", ["C03"], ["Meta::new", "Meta::get_type", "Meta::pack_static_str", "Meta::unpack_strlen"],
      "all 9 static type tags, all static string lengths < u32::MAX (complete)", cost=1),
)

# ================= serde/de.rs ====================================================================
_DEPTH = [("m_depth_seq", "deserialize_seq/tuple/tuple_struct"), ("m_depth_map", "deserialize_map"),
          ("m_depth_struct_seq", "deserialize_struct on '['"), ("m_depth_struct_map", "deserialize_struct on '{'"),
          ("m_depth_enum", "deserialize_enum on '{' (externally tagged variant; a newtype variant hands the deserializer straight on)")]
for _n, _f in _DEPTH:
    add(H(_n, "main", ["C01"], ["serde::de::DepthGuard::guard/drop", "impl Deserializer for &mut Deserializer<R>: " + _f, "Deserializer::end_seq/end_map"],
          "every budget d in 1..=255 (inductive step: nested access sees d-1, d restored, d == 1 rejected without recursing); input fixed to an empty container",
          stubs=[CUT_SYNTAX, M_WS, CUT_PIT, CUT_FIX], cost=10))
add(
    H("u_root_value_lossy_positions", "main", ["C20"], ["Deserializer::deserialize_value (utf8_lossy branch)", "serde::de::lossy_offset_in_origin", "Parser::error", "Read::{eat,set_index,index}"],
      "input `\"` ff `\"` (one invalid byte, copy of 5 bytes) x every end offset 1..8 / every error offset 1..5 the DOM parser may report in the copy",
      stubs=[CUT_SYNTAX, "model: String::from_utf8_lossy -> the repaired copy of this input (concrete)", "cut: Value::parse_with_padding -> arbitrary Ok(end) / Err(offset) in the repaired copy", "cut: Value::parse_without_padding (not reached)"], cost=200, mem_gb=16, exp_gb=6),
    H("u_root_value_lossy_positions_two", "main", ["C20"], ["Deserializer::deserialize_value (utf8_lossy branch)", "serde::de::lossy_offset_in_origin", "Parser::error", "Read::{eat,set_index,index}"],
      "input `\"` ff e2 82 `\"` (two invalid sequences, copy of 8 bytes) x every end offset 1..11 / every error offset 1..8 the DOM parser may report in the copy",
      stubs=[CUT_SYNTAX, "model: String::from_utf8_lossy -> the repaired copy of this input (concrete)", "cut: Value::parse_with_padding -> arbitrary Ok(end) / Err(offset) in the repaired copy", "cut: Value::parse_without_padding (not reached)"], tier=T, cost=350, mem_gb=16, exp_gb=9),
    H("u_root_value_padding_overrun", "main", ["C02", "C01", "C20"], ["Deserializer::deserialize_value (root Value through the padded DOM parser)", "Parser::error", "Read::{eat,set_index,index}"],
      "input `\"abc`; the DOM parser's reported end offset arbitrary in 1..=len+3 (the parser itself is cut)", stubs=[CUT_SYNTAX, "cut: Value::parse_with_padding -> Ok(arbitrary end offset), value untouched"], cost=20),
    H("m_seq_next_element_n6", "main", ["C02"], ["SeqAccess::next_element_seed", "Deserializer::end_seq", "deserialize_ignored_any"],
      "every buffer of length <= 6 x every start index x first in {true,false} x every E", stubs=[CUT_SYNTAX, M_WS, M_ONE], cost=11),
    H("m_map_next_entry_n8", "main", ["C02"], ["MapAccess::next_key_seed", "MapAccess::next_value_seed", "MapKey::deserialize_any", "Parser::parse_object_clo"],
      "every buffer of length <= 8 x every start index x first in {true,false} x every E; escape-free keys", stubs=[CUT_SYNTAX, M_WS, M_ONE, M_KEY], cost=110),
    H("m_end_seq_map_n6", "main", ["C02"], ["Deserializer::end_seq", "Deserializer::end_map", "Parser::parse_array_end"],
      "every buffer of length <= 6 x every start index", stubs=[CUT_SYNTAX, M_WS], cost=4),
    H("m_stream_latch_any_outcome", "main", ["C20"], ["StreamDeserializer::next"], "arbitrary latch state x the item's Deserialize answering Ok or an error of any category (syntax, eof, type mismatch, not found); two consecutive calls", cost=15),
    H("m_stream_latch_n5", "main", ["C20"], ["StreamDeserializer::next", "Deserializer::into_stream"],
      "every buffer of length <= 5 x every start index x arbitrary latch state x every E; two consecutive calls", stubs=[CUT_SYNTAX, M_WS, M_ONE], cost=4),
    H("u_deserialize_rawnumber_n7", "main", ["C08", "C02"], ["Deserializer::deserialize_rawnumber"],
      "every buffer of length <= 7 (bare and quoted literals)", stubs=[CUT_SYNTAX, M_WS, M_NUM], cost=20),
)

# ================= lazy values ====================================================================
add(
    H("e_lazy_parse_from", "main", ["C18", "C01"], ["lazyvalue::value::Inner::parse_from", "impl Clone for Inner", "impl Drop for Inner"],
      "one shared Inner: 2 reads + 1 read through a clone by the reader under test, clone before/after the first read, both drop orders, "
      "the other reader's publish at any of the atomic steps (all two-reader interleavings at atomic-step granularity)", native_replay=False,
      stubs=[ATOMIC, "cut: from_slice_unchecked::<String> -> fixed decoding \"x\"", "instrumented: Arc::new -> same allocation + reference ledger"], cost=60),
    H("e_lazy_parse_from_frees", "main", ["C18", "C01"], ["lazyvalue::value::Inner::parse_from", "impl Clone for Inner", "impl Drop for Inner"],
      "same histories without the ledger's extra handles: every release really frees (CBMC dealloc-layout / double-free / use-after-free checks)",
      native_replay=False, stubs=[ATOMIC, "cut: from_slice_unchecked::<String> -> fixed decoding \"x\""], cost=40),
    H("e_owned_load1", "main", ["C18", "C01"], ["lazyvalue::owned::LazyRaw::load"],
      "one shared LazyRaw: one load by the reader under test, the other reader's publish at either atomic step", native_replay=False,
      stubs=[ATOMIC, CUT_LOAD, CUT_DROP], mem_gb=28, exp_gb=10, cost=235),
    H("e_owned_load", "main", ["C18"], ["lazyvalue::owned::LazyRaw::load"],
      "one shared LazyRaw: 2 loads by the reader under test, the other reader's publish at any atomic step", native_replay=False,
      stubs=[ATOMIC, CUT_LOAD, CUT_DROP], tier=T, cost=510, mem_gb=28, exp_gb=10),
    H("e_owned_load_then_parse", "main", ["C13", "C18", "C01"], ["LazyRaw::load", "LazyRaw::parse"],
      "sequence: optional shared read that fills the cache, then the mutable take-out; the cache must not keep the pointer it handed out",
      native_replay=False, stubs=[ATOMIC, CUT_LOAD, CUT_DROP], tier=T, cost=365, mem_gb=28, exp_gb=10),
    H("u_owned_from_lazy_after_as_str", "main", ["C13"], ["impl From<LazyValue> for OwnedLazyValue", "LazyValue::as_str", "Inner::parse_from", "impl Clone for Inner"],
      "raw text `\"\\u0078\"` (escapes possible) x {as_str() ran before, ran on the value it was cloned from, never ran}", stubs=["cut: serde::de::from_slice_unchecked::<String> -> \"x\"", "env model: AtomicPtr (no interference)"], cost=30),
    H("u_owned_from_lazy_types", "main", ["C13", "C01"], ["impl From<LazyValue> for OwnedLazyValue", "OwnedLazyValue::get_type/as_bool", "LazyRaw::get_type"],
      "raw text of each JSON value class (true,false,null,number,negative number,string,[],{}), conversion From<LazyValue>; string escape status symbolic", exp_gb=8, cost=12),
    H("u_owned_new_types", "main", ["C13", "C01"], ["OwnedLazyValue::new (used by to_lazyvalue and the parser)", "OwnedLazyValue::get_type/as_bool", "LazyRaw::get_type"],
      "raw text of each JSON value class, constructor `new`; string escape status symbolic", exp_gb=8, cost=12),
    H("u_owned_get_mut_probe_keeps_raw", "main", ["C13"], ["OwnedLazyValue::get_mut", "OwnedLazyValue::get_mut_from_raw", "LazyRaw::get_type"],
      "five concrete raw texts (two numbers, escaped string, [], {}) looked up with the index kind that cannot apply", stubs=[CUT_LOAD, CUT_DROP], mem_gb=28, exp_gb=8, cost=10),
    H("u_owned_clone_loaded_keeps_raw", "main", ["C13"], ["impl Clone for LazyPacked", "LazyRaw::clone_lazyraw"],
      "one concrete raw text (1.50), cache filled with a concrete scalar decoding", stubs=[ATOMIC, CUT_DROP], mem_gb=28, exp_gb=8, cost=15),
    H("u_owned_clone_unloaded_keeps_raw", "main", ["C13"], ["impl Clone for LazyPacked", "LazyRaw::clone_lazyraw"],
      "one concrete raw text (escaped string), cache empty", stubs=[ATOMIC, CUT_DROP], mem_gb=28, exp_gb=8, cost=15),
    H("u_owned_mut_probe_keeps_raw", "main", ["C13"], ["OwnedLazyValue::as_array_mut", "OwnedLazyValue::as_object_mut", "LazyRaw::get_type"],
      "four concrete raw texts (number, escaped string, {}, []) probed for the other container kind", stubs=[CUT_LOAD, CUT_DROP], mem_gb=28, exp_gb=8, cost=6),
    H("m_array_iter_latch", "main", ["C12", "C20"], ["ArrayJsonIter::next_elem_impl"],
      "arbitrary (first, ending, skip_strict) state x valid/invalid deferred UTF-8 verdict x every outcome of the element driver; two consecutive calls",
      stubs=[CUT_SYNTAX, "contract model: Parser::parse_array_elem_lazy -> nondeterministic {element, end, error} (its grammar is decided by m_array_elem_lazy_n7)"], cost=5),
    H("m_object_iter_latch", "main", ["C12", "C20"], ["ObjectJsonIter::next_entry_impl"],
      "arbitrary (first, ending, skip_strict) state x valid/invalid deferred UTF-8 verdict x every outcome of the entry driver; two consecutive calls",
      stubs=[CUT_SYNTAX, "contract model: Parser::parse_entry_lazy -> nondeterministic {entry, end, error} (its grammar is decided by m_entry_lazy_n7)"], cost=7),
)

# ================= serialization ==================================================================
add(
    H("u_int_widths_reach_itoa", "main", ["C08", "C05"], ["Serializer::serialize_{i,u}{8,16,32,64,128}", "MapKeySerializer::serialize_{i,u}{8..128}", "Formatter::write_{i,u}{8..128}"],
      "every width x every value x {value position, map key}: the digit generator receives the same value of the same width and its text is what is written (between quotes for a key)",
      stubs=["cut: itoa::Buffer::format -> recorder returning \"7\" (itoa's digit generation is a trusted dependency)"], cost=30, native_replay=False),
    H("u_write_string_fast_n2", "main", ["C05"], ["Formatter::write_string_fast (CompactFormatter, PrettyFormatter)", "WriteExt for Vec<u8>::{reserve_with,flush_len}"],
      "every ASCII string of length <= 2 x need_quote x {compact, pretty}; writer = Vec with spare capacity", stubs=["model: util::string::format_string -> specification escaper into the reserved window (+ window >= 6n+35 asserted)"], cost=30),
    H("u_map_key_char_goes_through_escaper", "main", ["C05"], ["MapKeySerializer::serialize_char", "Serializer::serialize_str", "Formatter::write_string_fast (routing)"],
      "every char: the key reaches format_string as its UTF-8 bytes with need_quote, and nothing else is written", stubs=["cut: util::string::format_string -> recorder (the escaper is decided by the U-format harnesses)"], cost=20, native_replay=False),
    H("k_float_nonfinite_null", "main", ["C05", "C08"], ["Serializer::serialize_f64", "Serializer::serialize_f32", "Formatter::write_null/write_f64/write_f32"],
      "all 2^64 f64 and all 2^32 f32 bit patterns (complete for the finite/non-finite branch)",
      stubs=["cut: ryu::Buffer::format_finite -> \"1.5\" (digit generation is outside the claim)"], cost=2),
    H("w_buffered_writer_short_writes", "main", ["C05"], ["writer::BufferedWriter::{write,reserve_with,flush_len}", "WriteExt for Vec<u8>"],
      "inner writer accepting 1..=4 bytes per call x <= 4 symbolic committed bytes between two punctuation writes", stubs=[CUT_FMT], cost=20),
    H("w_io_bufwriter_order", "main", ["C05"], ["WriteExt for io::BufWriter<W>::{reserve_with,flush_len}", "WriteExt for Vec<u8>"],
      "one pending byte in the BufWriter followed by two committed bytes (symbolic values)", stubs=[CUT_FMT], exp_gb=6, cost=3),
)

# ================= sonic-number ===================================================================
add(
    H("u_parse_number_int_len1_12", "number", ["C07", "C08"], ["sonic_number::parse_number (integer path)"],
      "every decimal digit string of length 1..=12 without superfluous leading zero, with and without '-'", stubs=[CUT_PF], cost=145),
    H("u_parse_number_int_len19", "number", ["C07", "C08"], ["sonic_number::parse_number (integer path, 19 digits)"],
      "every 19-digit string, with and without '-' (i64::MIN / 2^63 boundary)", stubs=[CUT_PF], cost=115),
    H("u_parse_number_int_len20", "number", ["C07", "C08"], ["sonic_number::parse_number (integer path, 20 digits, overflowing_mul/add cut-over)"],
      "every 20-digit string, with and without '-' (u64::MAX boundary)", stubs=[CUT_PF], cost=120),
    H("u_parse_number_int_len13_20", "number", ["C07", "C08"], ["sonic_number::parse_number (integer path)"],
      "every decimal digit string of length 13..=20, with and without '-'", stubs=[CUT_PF], tier=T, cost=530),
    H("u_parse_number_grammar_n7", "number", ["C02", "C07", "C01"], ["sonic_number::parse_number", "parse_number_fraction (scalar branch)", "parse_exponent"],
      "every byte string of length <= 7 starting with '-' or a digit", stubs=[CUT_PF], cost=30),
    H("k_parse_exponent_n8", "number", ["C07", "C01"], ["sonic_number::parse_exponent"], "every buffer of length <= 8", cost=5),
    H("k_float_fast_mul_e1", "number", ["C07"], ["sonic_number::parse_float_fast"], "E = 1, every significand < 2^20", cost=2),
    H("k_float_fast_mul_e10", "number", ["C07"], ["sonic_number::parse_float_fast"], "E = 10, every significand < 2^20", tier=T, cost=580),
    H("k_float_fast_div_e3", "number", ["C07"], ["sonic_number::parse_float_fast"], "E = -3, every significand < 2^16",
      stubs=["assumption: IEEE 754 division is correctly rounded"], cost=7),
    H("k_decimal_try_add_digit", "number", ["C01", "C07"], ["sonic_number::decimal::Decimal::try_add_digit"], "every digit count 0..=MAX_DIGITS+4 x every digit (complete)", cost=2),
    H("k_decimal_round_6", "number", ["C07"], ["sonic_number::decimal::Decimal::round"],
      "every trimmed decimal of <= 6 significant digits x decimal point in -1..=7 x truncated flag", cost=11),
    H("k_number_classification", "main", ["C07"], ["impl From<ParserNumber> for Number", "Number::{is_u64,is_i64,is_f64,as_u64,as_i64,as_f64,from_f64}", "impl From<i64/u64> for Number"],
      "every u64, every negative i64, every finite f64 (complete)", cost=2),
    H("k_pow10_tables", "number", ["C07"], ["POW10_FLOAT", "POW10_UINT"], "all 23 / 18 entries (complete)", cost=1),
)

# ================= SMT over the compiler's MIR (smt/): table-driven float construction ===========
# crate "smt": decided by z3/cvc5 on linear integer arithmetic generated from `rustc -Zunpretty=mir`
# of the scratch copy; `args` go to smt/float_check.py
SMT_FUNCS = ["sonic_number::parse_float (guards, sign, routing, finiteness check)", "sonic_number::parse_float_fast (one IEEE operation on exact operands)", "sonic_number::parse_floating_normal_fast", "sonic_number::lemire::full_multiplication",
             "sonic_number::lemire::compute_float::<f64> (Eisel-Lemire; for exponents <= -308 per value of leading_zeros(w), subnormal results included)", "lemire::compute_product_approx", "lemire::power", "BiasedFp::zero_pow2",
             "sonic_number::biased_fp_to_float::<f64>", "POWER_OF_FIVE_128 (from the compiler's allocation dump)", "impl RawFloat for f64 (associated constants, from the MIR)"]
SMT_CUTS = ["opaque (paths through it are outside the claim and counted): slow::parse_long_mantissa (the fallback when Eisel-Lemire does not answer)",
            "model: one f64 multiplication/division of exactly known operands returns the double nearest to the exact result (IEEE 754); exactness of an operand (an integer of magnitude <= 2^53, a literal) is proved from the path constraints",
            "assumption: 1 <= significand < 10^19 and trunc == false (what parse_number passes when no digit was dropped)",
            "model: x << leading_zeros(x) as a fresh normalised n with lz free (over-approximation); counterexamples are made exact by pinning lz before replay",
            "dev-profile overflow assertion at `add + 1` (parse_floating_normal_fast bb23) is not decided by either solver and is not claimed"]
_b = ",".join(str(e) for e in list(range(-308, -303)) + list(range(-24, -20)) + list(range(21, 25)) + list(range(36, 40)) + list(range(284, 294)))
_s = ",".join(str(e) for e in sorted(set(range(-344, 346, 16)) | set(range(-6, 25))))
_L = "--lemire=-345..345"
add(
    H("s_float_fast_bounds", "smt", ["C02", "C07", "C08"], SMT_FUNCS,
      "decimal exponents -308..=-304 and 284..=293 (both ends of the table-product guard), -24..=-21, 21..=24 and 36..=39 (the ends of the one-operation path) x every significand 1 <= w < 10^19 x sign; 60 s per query",
      stubs=SMT_CUTS, args=["float_check.py", "--exps=" + _b, _L, "--jobs", "5", "--timeout-ms", "60000"], cost=150, timeout=850),
    H("s_float_fast_sampled", "smt", ["C07", "C08"], SMT_FUNCS,
      "every 16th decimal exponent in -344..=344 and all of -6..=24 x every significand 1 <= w < 10^19, sign flag false (the sign is decided by s_float_fast_bounds / _all); 60 s per query",
      stubs=SMT_CUTS, args=["float_check.py", "--exps=" + _s, _L, "--neg", "false", "--jobs", "5", "--timeout-ms", "60000"], cost=100, timeout=850),
    H("s_float_fast_all", "smt", ["C02", "C07", "C08", "C01"], SMT_FUNCS,
      "every decimal exponent in -345..=345 x every significand 1 <= w < 10^19 x sign; 120 s per query",
      stubs=SMT_CUTS, args=["float_check.py", "--emin", "-345", "--emax", "345", _L, "--jobs", "14", "--timeout-ms", "120000"], tier=T, exp_gb=24, cost=1800, timeout=7200),
    H("s_float_trunc_sampled", "smt", ["C07"], SMT_FUNCS,
      "truncated significands (trunc == true, 10^16 <= w < 10^19: literals with more digits than the scanner keeps) at decimal exponents -200, -100, -50, 50, 100, 200, 280: whenever "
      "parse_float answers from the two Eisel-Lemire results for w and w+1, that answer is the rounding of w*10^e and of (w+1)*10^e, hence of every value in between; 60 s per query",
      stubs=SMT_CUTS + ["model: <BiasedFp as PartialEq>::ne field-wise"], args=["float_check.py", "--exps=-200,-100,-50,50,100,200,280", "--lemire=-307..345", "--neg", "false", "--trunc", "--jobs", "4", "--timeout-ms", "60000"],
      cost=60, timeout=850),
    H("s_float_trunc_all", "smt", ["C07"], SMT_FUNCS,
      "truncated significands (trunc == true, 10^16 <= w < 10^19) at every decimal exponent -307..=345 except -4 (the lower end of Eisel-Lemire's tie rule: one of its 1820 path pairs is decided by neither solver within 300 s); 120 s per query",
      stubs=SMT_CUTS + ["model: <BiasedFp as PartialEq>::ne field-wise"], args=["float_check.py", "--emin", "-307", "--emax", "345", "--skip=-4", "--lemire=-307..345", "--neg", "false", "--trunc", "--jobs", "14", "--timeout-ms", "120000"],
      tier=T, exp_gb=24, cost=3000, timeout=10800),
    H("s_simd_str2int", "smt", ["C07", "C17"], ["sonic_number::arch::x86_64::simd_str2int (the SSE digit reader selected with avx2+pclmulqdq, i.e. by /repo's target-cpu=native)",
                                               "macros packadd_1/2/4, simd_add_5_8, simd_add_9_15, simd_add_16"],
      "need 1..=16 x position 1..=16 of the first non-digit (16 = none) x its class (three byte ranges) x every value of all 16 bytes; result == (decimal value of the first min(need, p) digits, min(need, p))",
      stubs=["models: 16 x86 intrinsics lane-wise after the Intel pseudo-code (smt/mir2smt.py SIMD table; same semantics as harness/common/intrinsics.rs, which the self-test compares with the CPU)",
             "assumption: the first byte is a digit (parse_number_fraction is entered on a digit)"],
      args=["simd_check.py", "--jobs", "3", "--timeout-ms", "60000"], cost=10, timeout=600),
    H("s_parse_number_shapes", "smt", ["C07", "C02", "C08"], ["sonic_number::parse_number", "parse_number_fraction", "parse_exponent", "arch::fallback::simd_str2int (scalar 16-digit reader)", "POW10_UINT"],
      "1764 literal shapes: sign x integer part (0, or 1/2/3/16..21 digits) x 0/1/2/3/15..19 fraction digits x {no exponent, e dd, E-d, e+ddd} x {end of input, more input}, plus 324 malformed ones (dot or exponent marker without a digit) that must be rejected; every value of every digit",
      stubs=["opaque: parse_float - its arguments are what is asserted (what it returns for them is decided by the s_float_* runs)",
             "what follows the literal is one fixed 25-byte tail (the scanner only looks at its length)"],
      args=["number_check.py", "--jobs", "5", "--timeout-ms", "60000", "--shapes", "quick"], cost=130, timeout=850),
    H("s_parse_number_shapes_native", "smt", ["C07", "C17"], ["sonic_number::parse_number", "parse_number_fraction", "parse_exponent", "arch::x86_64::simd_str2int (the SSE 16-digit reader of target-cpu=native builds, with the intrinsic models)", "POW10_UINT"],
      "the 1764 literal shapes of s_parse_number_shapes on the MIR compiled with the x86 target features (avx2, pclmulqdq, sse4.1, ssse3): same assertions, so the scanner's result does not depend on the backend; every value of every digit",
      stubs=["opaque: parse_float - its arguments are what is asserted", "models: x86 intrinsics lane-wise (smt/mir2smt.py SIMD table)",
             "what follows the literal is one fixed 25-byte tail (the scanner only looks at its length)"],
      args=["number_check.py", "--native", "--jobs", "5", "--timeout-ms", "60000", "--shapes", "quick"], cost=130, timeout=850),
    H("s_parse_number_shapes_all", "smt", ["C07", "C02", "C08", "C01"], ["sonic_number::parse_number", "parse_number_fraction", "parse_exponent", "arch::fallback::simd_str2int (scalar 16-digit reader)", "POW10_UINT"],
      "every shape with sign x integer part (0, or 1..=22 digits) x 0..=22 fraction digits x {no exponent, e/E x sign/no sign x 1..=3 digits} x {end of input, more input}, plus the malformed ones (dot or exponent marker without a digit); every value of every digit",
      stubs=["opaque: parse_float - its arguments are what is asserted (what it returns for them is decided by the s_float_* runs)",
             "what follows the literal is one fixed 25-byte tail (the scanner only looks at its length)"],
      args=["number_check.py", "--jobs", "14", "--timeout-ms", "60000", "--shapes", "all"], tier=T, exp_gb=24, cost=1500, timeout=7200),
    H("s_float_fast_bounds_2solvers", "smt", ["C02", "C07", "C08"], SMT_FUNCS,
      "as s_float_fast_bounds, every rounding query answered by both z3 and cvc5 and compared",
      stubs=SMT_CUTS, args=["float_check.py", "--exps=" + _b, "--lemire=-307..345", "--jobs", "14", "--timeout-ms", "60000", "--both"], tier=T, exp_gb=24, cost=600, timeout=5400),
)

# ================= sonic-simd (selected backend) and the external crate ===========================
SIMD_IN = [
    ("k_simd_u8x16_eq", "u8x16 loadu/storeu/eq/bitmask (sse2.rs)"), ("k_simd_u8x16_le", "u8x16 le (sse2.rs)"),
    ("k_simd_u8x16_splat", "u8x16 splat"), ("k_simd_u8x32_eq", "u8x32 loadu/storeu/eq/bitmask (v256.rs over sse2.rs)"),
    ("k_simd_u8x32_le", "u8x32 le"), ("k_simd_u8x32_splat", "u8x32 splat"),
    ("k_simd_u8x64_eq", "u8x64 loadu/storeu/eq/bitmask (v512.rs)"), ("k_simd_u8x64_le", "u8x64 le"),
    ("k_simd_u8x64_splat", "u8x64 splat"), ("k_simd_i8x16", "i8x16 gt/le/eq/splat/loadu/storeu"),
    ("k_simd_i8x32", "i8x32 gt/le/eq/splat/loadu/storeu"), ("k_simd_i8x64", "i8x64 gt/le/eq/splat/loadu/storeu"),
    ("k_simd_mask256_ops", "m8x32 | & |= splat bitmask"), ("k_bits_u16", "BitMask for u16"),
    ("k_bits_u32", "BitMask for u32"), ("k_bits_u64", "BitMask for u64"),
]
for _n, _f in SIMD_IN:
    add(H(_n, "simd", ["C17"], [_f], "all inputs, every lane via a symbolic lane index (complete)",
          stubs=[MAXEPU8] if _n.endswith("_le") else [], timeout=600, cost=30))
for _be, _what in (("portable", "v128.rs + v256.rs + v512.rs"), ("native", "sse2.rs + avx2.rs + v512.rs")):
    for _fn, _f in (("u8x32", "u8x32 loadu/storeu/eq/le/splat/bitmask"), ("i8x32", "i8x32 gt/le/eq/splat/bitmask"),
                    ("u8x64", "u8x64 eq/le/bitmask"), ("mask_ops", "m8x32 | & |= splat")):
        add(H("x_%s_%s" % (_be, _fn), "ext", ["C17"], ["%s backend (%s): %s" % (_be, _what, _f)],
              "all inputs, every lane via a symbolic lane index (complete)",
              stubs=[INTR + "_mm_max_epu8, _mm256_max_epu8"] if _fn.startswith("u8") else [],
              qname="harness::k_%s::%s" % (_be, _fn), timeout=600, cost=40))
add(
    H("x_arch_prefix_xor", "ext", ["C17", "C10"], ["util::arch::x86_64::prefix_xor", "util::arch::fallback::prefix_xor"],
      "all 2^64 masks (complete)", stubs=[INTR + "_mm_clmulepi64_si128"], qname="harness::k_arch_prefix_xor", cost=70),
    H("x_arch_nonspace_native", "ext", ["C17"], ["util::arch::x86_64::get_nonspace_bits"],
      "all 64-byte blocks, every lane (complete)", stubs=[INTR + "_mm256_shuffle_epi8"], qname="harness::k_arch_nonspace_native", cost=35),
    H("x_arch_nonspace_fallback", "ext", ["C17", "C10", "C02"], ["util::arch::fallback::get_nonspace_bits"],
      "all 64-byte blocks, every lane (complete)", qname="harness::k_arch_nonspace_fallback", cost=10),
)
for _k in range(1, 10):  # need = 10..16 did not finish within 20 minutes (64-bit multiply chains); see DESIGN.md
    add(H("x_num_str2int_%d" % _k, "ext", ["C17", "C07"] if _k in (1, 8) else ["C17"],
          ["sonic_number::arch::x86_64::simd_str2int", "sonic_number::arch::fallback::simd_str2int"],
          "need = %d, all 16-byte inputs whose first byte is a digit (complete under the callers' precondition)" % _k,
          stubs=[INTR + "_mm_maddubs_epi16, _mm_madd_epi16, _mm_packus_epi32, _mm_sub_epi8 (wrapping)"],
          qname="harness::k_num_str2int_%d" % _k, tier="quick" if _k <= 8 else T, timeout=900 if _k <= 8 else 5400))

# ---- experimental harnesses: kept in the harness files, runnable with --dev, not part of any claim ----
EXPERIMENTAL = [
    H("u_parse_string_inplace_prefix_p4", "main", [], ["util::string::parse_string_inplace (first block loop, escape loop, find-and-move loop)"],
      "4 symbolic non-backslash bytes + `\\n\"x` + zero padding (112-byte buffer), strict: verdict, length, cursor, bytes == reference decoder", stubs=[MAXEPU8], tier=T, timeout=3600, mem_gb=32, exp_gb=8,
      unwindset=[("parse_string_inplace", None, 3), ("ref_decode_string", None, 10), ("inplace_prefix_body", None, 6)]),
    H("u_parse_string_inplace_verdict_n2", "main", [], ["util::string::parse_string_inplace"], "2 symbolic bytes + `n\"x` + real padding, strict, no \\u", stubs=[MAXEPU8], tier=T, timeout=2400, mem_gb=32, exp_gb=12,
      unwindset=[("parse_string_inplace", 0, 3), ("parse_string_inplace", 1, 4), ("parse_string_inplace", 2, 4), ("parse_string_inplace", 3, 4), ("parse_string_inplace", 4, 5),
                 ("ref_decode_string", None, 7)]),
    H("u_owned_view_of_raw_array", "main", [], ["OwnedLazyValue::as_array (raw value)", "impl Deref for LazyArray", "LazyRaw::load", "LazyRaw::get_type"],
      "raw `[]`; the one-level parser cut to an empty array; no second reader", stubs=[CUT_LOAD, CUT_DROP], mem_gb=24, exp_gb=8, cost=60),
    H("u_owned_view_of_raw_object", "main", [], ["OwnedLazyValue::as_object (raw value)", "impl Deref for LazyObject", "LazyRaw::load", "LazyRaw::get_type"],
      "raw `{}`; the one-level parser cut to an empty object; no second reader", stubs=[CUT_LOAD, CUT_DROP], mem_gb=24, exp_gb=8, cost=60),
    H("u_parse_string_inplace_n6", "main", [], ["util::string::parse_string_inplace"], "6-byte symbolic document + real padding, strict", stubs=[MAXEPU8], tier=T, timeout=3600, mem_gb=32, exp_gb=16,
      unwindset=[("parse_string_inplace", None, 9), ("ref_decode_string", None, 11), ("inplace_body", None, 8)]),
    H("u_parse_string_inplace_lossy_n6", "main", [], ["util::string::parse_string_inplace"], "6-byte symbolic document + real padding, lossy", stubs=[MAXEPU8], tier=T, timeout=3600, mem_gb=32, exp_gb=16,
      unwindset=[("parse_string_inplace", None, 9), ("ref_decode_string", None, 11), ("inplace_body", None, 8)]),
    H("u_parse_str_n7", "main", [], ["Parser::parse_str (copying decoder incl. escape branch)"], "every byte string <= 7 after the quote, strict",
      stubs=[CUT_SYNTAX, MAXEPU8, "models: Vec::reserve/push/extend_from_slice -> in place"], tier=T, timeout=5400, mem_gb=32, exp_gb=16,
      unwindset=[("ref_decode_string", None, 9), ("ref_has_backslash", None, 9), ("::parse_string_raw", -1, 9), ("::parse_string_escaped", -1, 9), ("::parse_escaped_char", None, 5),
                 ("vec_extend_from_slice_model", None, 9)]),
    H("b_format_string_w28", "main", [], ["format_string (32-byte block loop + tail)"], "34-byte string with a 6-byte window at 28..34",
      stubs=[MAXEPU8, CUT_FMT], tier=T, exp_gb=10, mem_gb=24,
      unwindset=[("ref_escape", None, 36), ("escape_unchecked", None, 8), ("::format_string", -1, 8), ("b_format_string_w28", None, 8)]),
    H("m_dom_array2_n7", "main", [], ["Parser::parse_array2"], "every buffer <= 7 after '[' without nested '['", stubs=[CUT_SYNTAX, M_WS, M_DOMSTR], tier=T, mem_gb=24, exp_gb=8,
      unwindset=[("verif_kani_parser_walk::setup", None, 9), ("ref_array_events", None, 6), ("dom_array_body", None, 9), ("ref_skip_ws", None, 9), ("ref_string_end", None, 9), ("ref_number_end", None, 9), ("ref_literal_end", None, 7), ("ref_has_backslash", None, 9), ("try_from_fn", None, 9)]),
    H("m_dom_array_n7", "main", [], ["Parser::parse_array"], "every buffer <= 7 after '[' without nested '['", stubs=[CUT_SYNTAX, M_WS, M_DOMSTR], tier=T, mem_gb=24, exp_gb=8,
      unwindset=[("verif_kani_parser_walk::setup", None, 9), ("ref_array_events", None, 6), ("dom_array_body", None, 9), ("ref_skip_ws", None, 9), ("ref_string_end", None, 9), ("ref_number_end", None, 9), ("ref_literal_end", None, 7), ("ref_has_backslash", None, 9), ("try_from_fn", None, 9)]),
    H("m_get_array_unchecked_n8", "main", [], ["Parser::get_from_array"], "well-formed texts <= 8", stubs=[CUT_SYNTAX, M_WS], tier=T, mem_gb=28, exp_gb=10),
    H("m_get_object_unchecked_n9", "main", [], ["Parser::get_from_object"], "well-formed texts <= 9", stubs=[CUT_SYNTAX, M_WS], tier=T, mem_gb=28, exp_gb=10),
    H("m_depth_any_seq", "main", [], ["deserialize_any on '['"], "every budget d", stubs=[CUT_SYNTAX, M_WS, CUT_PIT, CUT_FIX], tier=T),
    H("m_depth_any_map", "main", [], ["deserialize_any on '{'"], "every budget d", stubs=[CUT_SYNTAX, M_WS, CUT_PIT, CUT_FIX], tier=T),
    H("m_get_object_checked_n8", "main", [], ["Parser::get_from_object_checked"], "every buffer <= 8", stubs=[CUT_SYNTAX, M_WS, M_ONE, M_KEY, CUT_PIT], tier=T),
    H("m_entry_lazy_n9x", "main", [], ["tmp"], "tmp", tier=T),
]
HARNESSES.extend(h for h in EXPERIMENTAL if h.name != "m_entry_lazy_n9x")

BY_NAME = {h.name: h for h in HARNESSES}


def harnesses_for(prop, tier):
    out = []
    for h in HARNESSES:
        if prop in h.props and (h.tier == "quick" or tier == "thorough"):
            out.append(h)
    return out
