"""Which harnesses decide which property, at which tier, under which bounds.

Every entry names the real functions the harness encodes (they are compiled from /repo's
current tree at run time), the bound inside which CBMC's verdict holds, and every stub/cut
that is part of the claim. run_check.py copies these into the evidence file together with what
the run measured.
"""

CUT_SYNTAX = "cut: Error::syntax -> code+index only (snippet rendering is decided by u_error_syntax_*)"
MAXEPU8 = "env model: _mm_max_epu8 lane-wise (Kani lacks simd_select); validated natively by selftest"
CUT_FMT = "cut: core::fmt::write / alloc::fmt::format -> no-op (subject is not formatting)"


class H:
    def __init__(self, name, crate, props, funcs, bound, tier="quick", timeout=900, mem_gb=12, stubs=(),
                 args=(), expect="pass", finding=None, thorough_only=False, note="", qname=None, exp_gb=3):
        self.name = name
        self.crate = crate
        self.props = props
        self.funcs = funcs
        self.bound = bound
        self.tier = tier  # 'quick' (runs in both tiers) or 'thorough'
        self.timeout = timeout
        self.mem_gb = mem_gb
        self.stubs = list(stubs)
        self.args = list(args)
        self.expect = expect  # 'pass' | 'known-fail' (harness encodes a listed known finding)
        self.finding = finding
        self.note = note
        self.qname = qname
        self.exp_gb = exp_gb


HARNESSES = [
    # ---------------- parser.rs: kernels -------------------------------------------------------
    H("k_escaped_u64", "main", ["C10", "C01"], ["parser::get_escaped_branchless_u64"],
      "all 2^64 backslash masks x both carry values (complete)"),
    H("k_escaped_u32", "main", ["C10", "C01"], ["parser::get_escaped_branchless_u32"],
      "all 2^32 backslash masks x both carry values (complete)"),
    H("k_is_whitespace", "main", ["C02", "C10"], ["parser::is_whitespace"], "all 256 bytes (complete)"),
    # ---------------- parser.rs: scanners ------------------------------------------------------
    H("u_skip_string_n8", "main", ["C02", "C14", "C09", "C01"],
      ["Parser::skip_string", "Parser::skip_escaped_chars", "Read::{peek,peek_n,next,next_n,eat,remain}"],
      "every byte string of length <= 8 after an opening quote (scalar path; 32-byte block path not entered)",
      stubs=[CUT_SYNTAX], timeout=900),
    H("u_skip_number_n6", "main", ["C02", "C14", "C08", "C01"],
      ["Parser::do_skip_number", "Parser::skip_exponent", "Parser::skip_single_digit"],
      "every byte string of length <= 6 starting with '-' or a digit (scalar path)", stubs=[CUT_SYNTAX]),
    H("u_skip_number_n8", "main", ["C02", "C14", "C08"],
      ["Parser::do_skip_number", "Parser::skip_exponent", "Parser::skip_single_digit"],
      "every byte string of length <= 8 starting with '-' or a digit (scalar path)", stubs=[CUT_SYNTAX],
      tier="thorough", timeout=2400),
    H("u_skip_space_n6", "main", ["C02", "C10", "C14", "C01"], ["Parser::skip_space"],
      "every buffer of length <= 6 x every start index (scalar paths; 64-byte block path not entered)"),
    H("u_literal_n6", "main", ["C02", "C14"], ["Parser::parse_literal"],
      "every byte string of length <= 6 starting with t/f/n", stubs=[CUT_SYNTAX]),
    H("u_skip_string_unchecked_n8", "main", ["C10", "C01"], ["Parser::skip_string_unchecked"],
      "every buffer of length <= 8 that starts with a well-formed string literal body", stubs=[CUT_SYNTAX]),
    H("u_get_next_token_n6", "main", ["C10", "C01"], ["Parser::get_next_token::<2>"],
      "every buffer of length <= 6 x every start index x advance in {0,1}; tokens {'\"','}'}"),
    H("u_parse_trailing_n6", "main", ["C02"], ["Parser::parse_trailing (bounds-checked reader)"],
      "every buffer of length <= 6 x every start index", stubs=[CUT_SYNTAX]),
    H("u_parse_object_clo_n6", "main", ["C02", "C14"], ["Parser::parse_object_clo"],
      "every buffer of length <= 6 x every start index", stubs=[CUT_SYNTAX]),
    # ---------------- parser.rs: modular steps -------------------------------------------------
    H("m_skip_array_n6", "main", ["C02", "C14", "C01"], ["Parser::skip_array", "Parser::skip_space", "Parser::skip_space_peek"],
      "every buffer of length <= 6 after '[' x every element recogniser E (symbolic table)",
      stubs=[CUT_SYNTAX, "contract model: Parser::skip_one -> abstract element recogniser E"]),
    H("m_skip_object_n7", "main", ["C02", "C14", "C01"],
      ["Parser::skip_object", "Parser::skip_string", "Parser::parse_object_clo", "Parser::skip_space"],
      "every buffer of length <= 7 after '{' x every element recogniser E (symbolic table)",
      stubs=[CUT_SYNTAX, "contract model: Parser::skip_one -> abstract element recogniser E"]),
    # ---------------- error.rs -----------------------------------------------------------------
    H("u_error_syntax_n6", "main", ["C20", "C01"], ["Error::syntax", "Position::from_index"],
      "every input of length <= 6 x every index <= len",
      stubs=["cut: alloc::fmt::format, String::from_utf8_lossy, str::repeat -> empty (snippet text only; window arithmetic real)"]),
    H("u_error_classify", "main", ["C20"], ["Error::classify", "Error::is_not_found"],
      "all 27 data-free error codes (complete)"),
]

HARNESSES += [
    # ---------------- util/string.rs -------------------------------------------------------------
    H("k_string_block", "main", ["C09", "C02", "C01"], ["StringBlock::new", "StringBlock::{has_unescaped,has_quote_first,has_backslash,quote_index,bs_index,unescaped_index}", "BitMask::before/first_offset"],
      "all 32-byte blocks (complete)", stubs=[MAXEPU8]),
    H("k_string_tables", "main", ["C05", "C09"], ["ESCAPED_TAB", "QUOTE_TAB", "NEED_ESCAPED"], "all 256 bytes (complete)"),
    H("k_check_cross_page", "main", ["C01", "C05"], ["check_cross_page"], "all pointers <= usize::MAX-64 (complete)"),
    H("u_format_string_n6", "main", ["C05", "C01"], ["format_string", "escape_unchecked", "escaped_mask", "check_cross_page"],
      "every byte string of length <= 6 (superset of valid UTF-8), with and without quotes; tail path (n < 32)",
      stubs=[MAXEPU8, CUT_FMT]),
    H("u_format_string_n8", "main", ["C05"], ["format_string", "escape_unchecked", "escaped_mask", "check_cross_page"],
      "every byte string of length <= 8 (superset of valid UTF-8), with and without quotes; tail path (n < 32)",
      stubs=[MAXEPU8, CUT_FMT], tier="thorough", timeout=2400),
    # ---------------- util/unicode.rs ------------------------------------------------------------
    H("k_hex_to_u32", "main", ["C09", "C01"], ["hex_to_u32_nocheck", "DIGIT_TO_VAL32"], "all 2^32 four-byte groups (complete)"),
    H("k_codepoint_to_utf8", "main", ["C09", "C01"], ["codepoint_to_utf8"], "all u32 code points (complete)"),
    H("k_unicode_inplace", "main", ["C09", "C01"], ["handle_unicode_codepoint_mut", "repr_utf16_surrogate", "hex_to_u32_nocheck", "codepoint_to_utf8"],
      "all 2^80 sequences `\\uXXXX` + 6 following bytes x {strict, lossy} (complete for one escape sequence / surrogate pair)"),
    H("k_unicode_copying", "main", ["C09", "C02", "C01"], ["Parser::parse_escaped_utf8", "codepoint_to_utf8 (caller's validity test)"],
      "every buffer of length <= 10 after `\\u` (all truncations) x {strict, lossy}", stubs=[CUT_SYNTAX]),
    H("u_parse_string_raw_borrowed_n8", "main", ["C09", "C02", "C10"], ["Parser::parse_string_raw (escape-free branch)"],
      "every buffer of length <= 8 after the opening quote with no backslash before the closing quote", stubs=[CUT_SYNTAX]),
    # ---------------- value/node.rs --------------------------------------------------------------
    H("k_meta_roundtrip_idx_lt_2p29", "main", ["C03", "C01"], ["Meta::pack_dom_node", "Meta::unpack_dom_node", "Meta::get_kind", "Meta::get_type", "Meta::unpack_strlen"],
      "all four dom kinds x all idx < 2^29 x all len: u32 (complete for the field width)"),
    H("k_meta_roundtrip_idx_ge_2p29", "main", ["C03", "C01"], ["Meta::pack_dom_node", "Meta::unpack_dom_node"],
      "all idx in [2^29, 2^31) x all len: u32 - the region of known finding F6", expect="known-fail", finding="F6"),
    H("k_meta_static_types", "main", ["C03"], ["Meta::new", "Meta::get_type", "Meta::pack_static_str", "Meta::unpack_strlen"],
      "all 9 static type tags, all static string lengths < u32::MAX (complete)"),
]

CUT_PF = "cut: sonic_number::parse_float -> nondeterministic Ok(Float)/Err(FloatMustBeFinite) (classification and index only)"
HARNESSES += [
    H("u_parse_number_int_len1_12", "number", ["C07", "C08", "C01"], ["sonic_number::parse_number (integer path)"],
      "every decimal digit string of length 1..=12 without superfluous leading zero, with and without '-'", stubs=[CUT_PF]),
    H("u_parse_number_int_len19", "number", ["C07", "C08"], ["sonic_number::parse_number (integer path, 19 digits)"],
      "every 19-digit string, with and without '-' (i64::MIN / 2^63 boundary)", stubs=[CUT_PF], timeout=1500),
    H("u_parse_number_int_len20", "number", ["C07", "C08"], ["sonic_number::parse_number (integer path, 20 digits, overflowing_mul/add cut-over)"],
      "every 20-digit string, with and without '-' (u64::MAX boundary)", stubs=[CUT_PF], timeout=1500),
    H("u_parse_number_int_len13_20", "number", ["C07", "C08"], ["sonic_number::parse_number (integer path)"],
      "every decimal digit string of length 13..=20, with and without '-'", stubs=[CUT_PF], tier="thorough", timeout=3600),
    H("u_parse_number_grammar_n7", "number", ["C02", "C07", "C01"], ["sonic_number::parse_number", "parse_number_fraction (scalar branch)", "parse_exponent"],
      "every byte string of length <= 7 starting with '-' or a digit", stubs=[CUT_PF]),
    H("k_parse_exponent_n8", "number", ["C07", "C01"], ["sonic_number::parse_exponent"], "every buffer of length <= 8"),
    H("k_float_fast_mul_e1", "number", ["C07"], ["sonic_number::parse_float_fast"], "E = 1, every significand < 2^20"),
    H("k_float_fast_mul_e22", "number", ["C07"], ["sonic_number::parse_float_fast"], "E = 22, every significand < 2^20"),
    H("k_float_fast_div_e3", "number", ["C07"], ["sonic_number::parse_float_fast"], "E = -3, every significand < 2^16",
      stubs=["assumption: IEEE 754 division is correctly rounded"]),
    H("k_float_fast_div_e22", "number", ["C07"], ["sonic_number::parse_float_fast"], "E = -22, every significand < 2^16",
      stubs=["assumption: IEEE 754 division is correctly rounded"]),
    H("k_pow10_tables", "number", ["C07"], ["POW10_FLOAT", "POW10_UINT"], "all 23 / 18 entries (complete)"),
]

SIMD_IN = [
    ("k_simd_u8x16_eq", "u8x16 loadu/storeu/eq/bitmask (sse2.rs)"), ("k_simd_u8x16_le", "u8x16 le (sse2.rs)"),
    ("k_simd_u8x16_splat", "u8x16 splat"), ("k_simd_u8x32_eq", "u8x32 loadu/storeu/eq/bitmask (v256.rs over sse2.rs)"),
    ("k_simd_u8x32_le", "u8x32 le"), ("k_simd_u8x32_splat", "u8x32 splat"),
    ("k_simd_u8x64_eq", "u8x64 loadu/storeu/eq/bitmask (v512.rs)"), ("k_simd_u8x64_le", "u8x64 le"),
    ("k_simd_u8x64_splat", "u8x64 splat"), ("k_simd_i8x16", "i8x16 gt/le/eq/splat/loadu/storeu"),
    ("k_simd_i8x32", "i8x32 gt/le/eq/splat/loadu/storeu"), ("k_simd_i8x64", "i8x64 gt/le/eq/splat/loadu/storeu"),
    ("k_simd_mask256_ops", "m8x32 | & |= splat bitmask"), ("k_bits_u16", "BitMask for u16"),
    ("k_bits_u32", "BitMask for u32"), ("k_bits_u64", "BitMask for u64"),
]
for _n, _f in SIMD_IN:
    HARNESSES.append(H(_n, "simd", ["C17"], [_f], "all inputs, every lane via a symbolic lane index (complete)",
                       stubs=[MAXEPU8] if _n.endswith("_le") else [], timeout=600))

INTR = "env models (validated natively against the CPU by selftest): "
for _be, _what in (("portable", "v128.rs + v256.rs + v512.rs"), ("native", "sse2.rs + avx2.rs + v512.rs")):
    for _fn, _f in (("u8x32", "u8x32 loadu/storeu/eq/le/splat/bitmask"), ("i8x32", "i8x32 gt/le/eq/splat/bitmask"),
                    ("u8x64", "u8x64 eq/le/bitmask"), ("mask_ops", "m8x32 | & |= splat")):
        HARNESSES.append(H("x_%s_%s" % (_be, _fn), "ext", ["C17"], ["%s backend (%s): %s" % (_be, _what, _f)],
                           "all inputs, every lane via a symbolic lane index (complete)",
                           stubs=[INTR + "_mm_max_epu8, _mm256_max_epu8"] if _fn.startswith("u8") else [],
                           qname="harness::k_%s::%s" % (_be, _fn), timeout=600))
HARNESSES += [
    H("x_arch_prefix_xor", "ext", ["C17", "C10"], ["util::arch::x86_64::prefix_xor", "util::arch::fallback::prefix_xor"],
      "all 2^64 masks (complete)", stubs=[INTR + "_mm_clmulepi64_si128"], qname="harness::k_arch_prefix_xor"),
    H("x_arch_nonspace_native", "ext", ["C17"], ["util::arch::x86_64::get_nonspace_bits"],
      "all 64-byte blocks, every lane (complete)", stubs=[INTR + "_mm256_shuffle_epi8"], qname="harness::k_arch_nonspace_native"),
    H("x_arch_nonspace_fallback", "ext", ["C17", "C10", "C02"], ["util::arch::fallback::get_nonspace_bits"],
      "all 64-byte blocks, every lane (complete)", qname="harness::k_arch_nonspace_fallback"),
    H("x_num_str2int", "ext", ["C17", "C07"], ["sonic_number::arch::x86_64::simd_str2int", "sonic_number::arch::fallback::simd_str2int"],
      "all 16-byte inputs whose first byte is a digit x need in 1..=16 (complete under the callers' precondition)",
      stubs=[INTR + "_mm_maddubs_epi16, _mm_madd_epi16, _mm_packus_epi32"], qname="harness::k_num_str2int", timeout=1200),
]

BY_NAME = {h.name: h for h in HARNESSES}


def harnesses_for(prop, tier):
    out = []
    for h in HARNESSES:
        if prop in h.props and (h.tier == "quick" or tier == "thorough"):
            out.append(h)
    return out
