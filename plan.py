"""Which harnesses decide which property, at which tier, under which bounds.

Every entry names the real functions the harness encodes (they are compiled from /repo's
current tree at run time), the bound inside which CBMC's verdict holds, and every stub/cut
that is part of the claim. run_check.py copies these into the evidence file together with what
the run measured.
"""

CUT_SYNTAX = "cut: Error::syntax -> code+index only (snippet rendering is decided by u_error_syntax_*)"
MAXEPU8 = "env model: _mm_max_epu8 lane-wise (Kani lacks simd_select); validated natively by selftest"
CUT_FMT = "cut: core::fmt::write / alloc::fmt::format -> no-op (subject is not formatting)"


class H:
    def __init__(self, name, crate, props, funcs, bound, tier="quick", timeout=900, mem_gb=12, stubs=(),
                 args=(), expect="pass", finding=None, thorough_only=False, note="", qname=None, exp_gb=3, unwindset=None, native_replay=True):
        self.name = name
        self.crate = crate
        self.props = props
        self.funcs = funcs
        self.bound = bound
        self.tier = tier  # 'quick' (runs in both tiers) or 'thorough'
        self.timeout = timeout
        self.mem_gb = mem_gb
        self.stubs = list(stubs)
        self.args = list(args)
        self.expect = expect  # 'pass' | 'known-fail' (harness encodes a listed known finding)
        self.finding = finding
        self.note = note
        self.qname = qname
        self.exp_gb = exp_gb
        self.unwindset = unwindset
        self.native_replay = native_replay


HARNESSES = [
    # ---------------- parser.rs: kernels -------------------------------------------------------
    H("k_escaped_u64", "main", ["C10"], ["parser::get_escaped_branchless_u64"],
      "all 2^64 backslash masks x both carry values (complete)"),
    H("k_escaped_u32", "main", ["C10"], ["parser::get_escaped_branchless_u32"],
      "all 2^32 backslash masks x both carry values (complete)"),
    H("k_is_whitespace", "main", ["C02", "C10"], ["parser::is_whitespace"], "all 256 bytes (complete)"),
    # ---------------- parser.rs: scanners ------------------------------------------------------
    H("u_skip_string_n8", "main", ["C02", "C14", "C09", "C01"],
      ["Parser::skip_string", "Parser::skip_escaped_chars", "Read::{peek,peek_n,next,next_n,eat,remain}"],
      "every byte string of length <= 8 after an opening quote (scalar path; 32-byte block path not entered)",
      stubs=[CUT_SYNTAX], timeout=900),
    H("u_skip_number_n6", "main", ["C02", "C14", "C08", "C01"],
      ["Parser::do_skip_number", "Parser::skip_exponent", "Parser::skip_single_digit"],
      "every byte string of length <= 6 starting with '-' or a digit (scalar path)", stubs=[CUT_SYNTAX]),
    H("u_skip_number_n8", "main", ["C02", "C14", "C08"],
      ["Parser::do_skip_number", "Parser::skip_exponent", "Parser::skip_single_digit"],
      "every byte string of length <= 8 starting with '-' or a digit (scalar path)", stubs=[CUT_SYNTAX],
      tier="thorough", timeout=2400),
    H("u_skip_space_n6", "main", ["C02", "C10", "C14", "C01"], ["Parser::skip_space"],
      "every buffer of length <= 6 x every start index (scalar paths; 64-byte block path not entered)"),
    H("u_literal_n6", "main", ["C02", "C14"], ["Parser::parse_literal"],
      "every byte string of length <= 6 starting with t/f/n", stubs=[CUT_SYNTAX]),
    H("u_skip_string_unchecked_n8", "main", ["C10", "C01"], ["Parser::skip_string_unchecked"],
      "every buffer of length <= 8 that starts with a well-formed string literal body", stubs=[CUT_SYNTAX]),
    H("u_get_next_token_n6", "main", ["C10", "C01"], ["Parser::get_next_token::<2>"],
      "every buffer of length <= 6 x every start index x advance in {0,1}; tokens {'\"','}'}"),
    H("u_parse_trailing_n6", "main", ["C02"], ["Parser::parse_trailing (bounds-checked reader)"],
      "every buffer of length <= 6 x every start index", stubs=[CUT_SYNTAX]),
    H("u_parse_object_clo_n6", "main", ["C02", "C14"], ["Parser::parse_object_clo"],
      "every buffer of length <= 6 x every start index", stubs=[CUT_SYNTAX]),
    # ---------------- parser.rs: modular steps -------------------------------------------------
    H("m_skip_array_n6", "main", ["C02", "C14"], ["Parser::skip_array", "Parser::skip_space", "Parser::skip_space_peek"],
      "every buffer of length <= 6 after '[' x every element recogniser E (symbolic table)",
      stubs=[CUT_SYNTAX, "contract model: Parser::skip_one -> abstract element recogniser E"]),
    H("m_skip_object_n7", "main", ["C02", "C14"],
      ["Parser::skip_object", "Parser::skip_string", "Parser::parse_object_clo", "Parser::skip_space"],
      "every buffer of length <= 7 after '{' x every element recogniser E (symbolic table)",
      stubs=[CUT_SYNTAX, "contract model: Parser::skip_one -> abstract element recogniser E"]),
    # ---------------- error.rs -----------------------------------------------------------------
    H("u_error_syntax_n6", "main", ["C20", "C01"], ["Error::syntax", "Position::from_index"],
      "every input of length <= 6 x every index <= len",
      stubs=["cut: alloc::fmt::format, String::from_utf8_lossy, str::repeat -> empty (snippet text only; window arithmetic real)"]),
    H("u_error_classify", "main", ["C20"], ["Error::classify", "Error::is_not_found"],
      "all 27 data-free error codes (complete)"),
]

HARNESSES += [
    # ---------------- util/string.rs -------------------------------------------------------------
    H("k_string_block", "main", ["C09", "C02"], ["StringBlock::new", "StringBlock::{has_unescaped,has_quote_first,has_backslash,quote_index,bs_index,unescaped_index}", "BitMask::before/first_offset"],
      "all 32-byte blocks (complete)", stubs=[MAXEPU8]),
    H("k_string_tables", "main", ["C05", "C09"], ["ESCAPED_TAB", "QUOTE_TAB", "NEED_ESCAPED"], "all 256 bytes (complete)"),
    H("k_check_cross_page", "main", ["C01", "C05"], ["check_cross_page"], "all pointers <= usize::MAX-64 (complete)"),
    H("u_format_string_n4", "main", ["C05", "C01"], ["format_string", "escape_unchecked", "escaped_mask", "check_cross_page"],
      "every byte string of length <= 4 (superset of valid UTF-8), with and without quotes; tail path (n < 32)",
      stubs=[MAXEPU8, CUT_FMT], mem_gb=20, exp_gb=8, timeout=1200),
    H("u_format_string_n6", "main", ["C05", "C01"], ["format_string", "escape_unchecked", "escaped_mask", "check_cross_page"],
      "every byte string of length <= 6 (superset of valid UTF-8), with and without quotes; tail path (n < 32)",
      stubs=[MAXEPU8, CUT_FMT], mem_gb=32, exp_gb=16, timeout=2400, tier="thorough"),
    H("u_format_string_n8", "main", ["C05"], ["format_string", "escape_unchecked", "escaped_mask", "check_cross_page"],
      "every byte string of length <= 8 (superset of valid UTF-8), with and without quotes; tail path (n < 32)",
      stubs=[MAXEPU8, CUT_FMT], tier="thorough", timeout=3000, mem_gb=40, exp_gb=30),
    # ---------------- util/unicode.rs ------------------------------------------------------------
    H("k_hex_to_u32", "main", ["C09", "C01"], ["hex_to_u32_nocheck", "DIGIT_TO_VAL32"], "all 2^32 four-byte groups (complete)"),
    H("k_codepoint_to_utf8", "main", ["C09", "C01"], ["codepoint_to_utf8"], "all u32 code points (complete)"),
    H("k_unicode_inplace", "main", ["C09", "C01"], ["handle_unicode_codepoint_mut", "repr_utf16_surrogate", "hex_to_u32_nocheck", "codepoint_to_utf8"],
      "all 2^80 sequences `\\uXXXX` + 6 following bytes x {strict, lossy} (complete for one escape sequence / surrogate pair)"),
    H("k_unicode_copying", "main", ["C09", "C02"], ["Parser::parse_escaped_utf8", "codepoint_to_utf8 (caller's validity test)"],
      "every buffer of length <= 10 after `\\u` (all truncations) x {strict, lossy}", stubs=[CUT_SYNTAX]),
    H("u_parse_string_raw_borrowed_n8", "main", ["C09", "C02", "C10"], ["Parser::parse_string_raw (escape-free branch)"],
      "every buffer of length <= 8 after the opening quote with no backslash before the closing quote", stubs=[CUT_SYNTAX]),
    # ---------------- value/node.rs --------------------------------------------------------------
    H("k_meta_roundtrip_idx_lt_2p29", "main", ["C03", "C01"], ["Meta::pack_dom_node", "Meta::unpack_dom_node", "Meta::get_kind", "Meta::get_type", "Meta::unpack_strlen"],
      "all four dom kinds x all idx < 2^29 x all len: u32 (complete for the field width)"),
    H("k_meta_roundtrip_idx_ge_2p29", "main", ["C03", "C01"], ["Meta::pack_dom_node", "Meta::unpack_dom_node"],
      "all idx in [2^29, 2^31) x all len: u32 - the region of known finding F6", expect="known-fail", finding="F6"),
    H("k_meta_static_types", "main", ["C03"], ["Meta::new", "Meta::get_type", "Meta::pack_static_str", "Meta::unpack_strlen"],
      "all 9 static type tags, all static string lengths < u32::MAX (complete)"),
]

M_WS = "contract model: Parser::skip_space -> first non-whitespace byte (justified by u_skip_space_n6)"
M_STR = "contract model: Parser::skip_string -> RFC 8259 string recogniser (justified by u_skip_string_n8)"
M_NUM = "contract model: Parser::skip_number -> RFC 8259 number recogniser (justified by u_skip_number_n6)"
M_ONE = "contract model: Parser::skip_one -> whitespace + abstract value recogniser E (symbolic table = induction hypothesis; dispatch decided by m_skip_one_dispatch_n7)"
M_NEST = "contract model: Parser::skip_array/skip_object -> abstract recogniser E (induction hypothesis; steps decided by m_skip_array_n6 / m_skip_object_n7)"
CUT_PIT = "cut: Parser::peek_invalid_type -> type-mismatch error without re-parsing the offending value"
M_KEY = "contract model: Parser::parse_string_raw -> borrowed span, escape-free keys only (justified by u_parse_string_raw_borrowed_n8); keys with escapes assumed away"
HARNESSES += [
    H("m_skip_one_dispatch_n7", "main", ["C02", "C14", "C13", "C01", "C10"], ["Parser::skip_one", "nested! (depth budget)", "Parser::parse_literal"],
      "every buffer of length <= 7 x every start index x every budget d in 1..=255 x every nested recogniser E",
      stubs=[CUT_SYNTAX, M_WS, M_STR, M_NUM, M_NEST]),
    H("m_get_array_checked_n7", "main", ["C10", "C14"], ["Parser::get_from_array_checked", "Parser::skip_space_peek"],
      "every buffer of length <= 7 x index 0..=3 x every E", stubs=[CUT_SYNTAX, M_WS, M_ONE, CUT_PIT]),
    H("m_get_object_checked_n8", "main", ["C10", "C14"], ["Parser::get_from_object_checked", "Parser::parse_object_clo"],
      "every buffer of length <= 8 x every escape-free ASCII key of length <= 2 x every E", stubs=[CUT_SYNTAX, M_WS, M_ONE, M_KEY, CUT_PIT], timeout=1200),
    H("m_get_object_checked_n9", "main", ["C10", "C14"], ["Parser::get_from_object_checked", "Parser::parse_object_clo"],
      "every buffer of length <= 9 x every escape-free ASCII key of length <= 2 x every E", stubs=[CUT_SYNTAX, M_WS, M_ONE, M_KEY, CUT_PIT], timeout=2400, tier="thorough"),
    H("m_array_elem_lazy_n7", "main", ["C12", "C14"], ["Parser::parse_array_elem_lazy (check = true)", "Parser::skip_space_peek"],
      "every buffer of length <= 7 x every start index x first in {true,false} x every E", stubs=[CUT_SYNTAX, M_WS, M_ONE]),
    H("m_entry_lazy_n9", "main", ["C12", "C14"], ["Parser::parse_entry_lazy (check = true)", "Parser::parse_object_clo"],
      "every buffer of length <= 9 x every start index x first in {true,false} x every E; escape-free keys",
      stubs=[CUT_SYNTAX, M_WS, M_ONE, "contract model: Parser::parse_str -> borrowed span, escape-free keys only (justified by u_parse_string_raw_borrowed_n8)"], timeout=1500),
    H("m_get_array_unchecked_n8", "main", ["C10"], ["Parser::get_from_array (unchecked index walker)"],
      "every well-formed JSON text of length <= 8 whose value is an array x index 0..=2 (full value grammar, no abstraction)",
      stubs=[CUT_SYNTAX, M_WS, CUT_PIT, "contract models: skip_container (u_skip_container_tail_n8), skip_string_unchecked2 (u_skip_string_unchecked_n8), get_next_token (u_get_next_token_n6), skip_one on well-formed input -> full value grammar"],
      timeout=1800, exp_gb=6),
    H("u_parser_error_clamp_n6", "main", ["C20", "C01"], ["Parser::error", "Parser::error_index"],
      "every buffer of length <= 6 x every reader index x every recorded error index (usize)", stubs=[CUT_SYNTAX]),
    H("u_parser_error_clamp_padded_n6", "main", ["C20", "C01"], ["Parser::error (PaddedSliceRead)", "PaddedSliceRead::{index,set_index,as_u8_slice}"],
      "6-byte document + 64-byte padding x every cursor position inside the padded buffer x every recorded error index", stubs=[CUT_SYNTAX]),
]

CUT_FIX = "cut: Parser::fix_position -> identity (error rendering is not the subject)"
_DEPTH = [("m_depth_any_seq", "deserialize_any on '['"), ("m_depth_any_map", "deserialize_any on '{'"), ("m_depth_seq", "deserialize_seq/tuple/tuple_struct"),
          ("m_depth_map", "deserialize_map"), ("m_depth_struct_seq", "deserialize_struct on '['"), ("m_depth_struct_map", "deserialize_struct on '{'")]
for _n, _f in _DEPTH:
    HARNESSES.append(H(_n, "main", ["C01"], tier="thorough" if "_any_" in _n else "quick", timeout=3600 if "_any_" in _n else 900, funcs=["serde::de::DepthGuard::guard/drop", "impl Deserializer for &mut Deserializer<R>: " + _f, "Deserializer::end_seq/end_map"],
                       bound="every budget d in 1..=255 (inductive step: nested access sees d-1, d restored, d == 1 rejected without recursing); input fixed to an empty container",
                       stubs=[CUT_SYNTAX, M_WS, CUT_PIT, CUT_FIX]))
HARNESSES += [
    H("m_seq_next_element_n6", "main", ["C02"], ["SeqAccess::next_element_seed", "Deserializer::end_seq", "deserialize_ignored_any"],
      "every buffer of length <= 6 x every start index x first in {true,false} x every E", stubs=[CUT_SYNTAX, M_WS, M_ONE]),
    H("m_end_seq_map_n6", "main", ["C02"], ["Deserializer::end_seq", "Deserializer::end_map", "Parser::parse_array_end"],
      "every buffer of length <= 6 x every start index", stubs=[CUT_SYNTAX, M_WS]),
    H("m_stream_latch_n5", "main", ["C20"], ["StreamDeserializer::next", "Deserializer::into_stream"],
      "every buffer of length <= 5 x every start index x arbitrary latch state x every E; two consecutive calls", stubs=[CUT_SYNTAX, M_WS, M_ONE]),
    H("u_deserialize_rawnumber_n7", "main", ["C08", "C02"], ["Deserializer::deserialize_rawnumber"],
      "every buffer of length <= 7 (bare and quoted literals)", stubs=[CUT_SYNTAX, M_WS, M_NUM]),
]

ATOMIC = ("env model: AtomicPtr of lazyvalue/value.rs and owned.rs -> harness/common/atomic_shim.rs (other reader may publish at every atomic step; "
          "compare_exchange_weak may fail spuriously; sequentially consistent)")
HARNESSES += [
    H("e_lazy_parse_from", "main", ["C18", "C01"], native_replay=False, funcs= ["lazyvalue::value::Inner::parse_from", "impl Clone for Inner", "impl Drop for Inner"],
      bound="one shared Inner: 2 reads + 1 read through a clone by the reader under test, clone before/after the first read, both drop orders, "
      "the other reader's publish at any of the atomic steps (all two-reader interleavings at atomic-step granularity)",
      stubs=[ATOMIC, "cut: from_slice_unchecked::<String> -> fixed decoding \"x\"", "instrumented: Arc::new -> same allocation + reference ledger"]),
    H("e_lazy_parse_from_frees", "main", ["C18", "C01"], native_replay=False, funcs= ["lazyvalue::value::Inner::parse_from", "impl Clone for Inner", "impl Drop for Inner"],
      bound="same histories without the ledger's extra handles: every release really frees (CBMC dealloc-layout / double-free / use-after-free checks)",
      stubs=[ATOMIC, "cut: from_slice_unchecked::<String> -> fixed decoding \"x\""]),
]

HARNESSES += [
    H("m_array_iter_latch", "main", ["C12", "C20"], ["ArrayJsonIter::next_elem_impl"],
      "arbitrary (first, ending, skip_strict) state x valid/invalid deferred UTF-8 verdict x every outcome of the element driver; two consecutive calls",
      stubs=["contract model: Parser::parse_array_elem_lazy -> nondeterministic {element, end, error} (its grammar is decided by m_array_elem_lazy_n7)"]),
    H("m_object_iter_latch", "main", ["C12", "C20"], ["ObjectJsonIter::next_entry_impl"],
      "arbitrary (first, ending, skip_strict) state x valid/invalid deferred UTF-8 verdict x every outcome of the entry driver; two consecutive calls",
      stubs=["contract model: Parser::parse_entry_lazy -> nondeterministic {entry, end, error}"]),
    H("u_owned_from_lazy_types", "main", ["C13", "C01"], ["impl From<LazyValue> for OwnedLazyValue", "OwnedLazyValue::new", "OwnedLazyValue::get_type/as_bool", "LazyRaw::get_type"],
      "raw text of each JSON value class (true,false,null,number,negative number,string,[],{}), conversion From<LazyValue>; string escape status symbolic", exp_gb=8),
    H("u_owned_new_types", "main", ["C13", "C01"], ["OwnedLazyValue::new (used by to_lazyvalue and the parser)", "OwnedLazyValue::get_type/as_bool", "LazyRaw::get_type"],
      "raw text of each JSON value class, constructor `new`; string escape status symbolic", exp_gb=8),
]

for _n, _w in (("k_block_step_obj_w0", 0), ("k_block_step_arr_w16", 16), ("k_block_step_obj_w32", 32), ("k_block_step_arr_w48", 48)):
    HARNESSES.append(H(_n, "main", ["C10"], ["parser::skip_container_loop", "parser::get_string_bits", "get_escaped_branchless_u64", "prefix_xor (fallback)", "u8x64::eq/bitmask"],
                       "every carry state (in-string, pending escape, counters < 2^20) x every 64-byte block that is symbolic in the 16-byte window at offset %d and neutral ('x') elsewhere" % _w,
                       timeout=3600, exp_gb=6, tier="thorough",
                       unwindset=[("ref_block_step", None, 66), ("windowed", None, 18), ("block_step_body", None, 18)]))
HARNESSES += [
    H("u_skip_container_tail_n8", "main", ["C10", "C01"], ["Parser::skip_container (zero-padded tail block)", "parser::skip_container_loop"],
      "every buffer of length <= 8 x {array, object}", stubs=[CUT_SYNTAX], timeout=1500, exp_gb=6),
]

HARNESSES += [
    H("k_float_nonfinite_null", "main", ["C05", "C08"], ["Serializer::serialize_f64", "Serializer::serialize_f32", "Formatter::write_null/write_f64/write_f32"],
      "all 2^64 f64 and all 2^32 f32 bit patterns (complete for the finite/non-finite branch)", stubs=["cut: ryu::Buffer::format_finite -> \"1.5\" (digit generation is outside the claim)"]),
]


HARNESSES += [
    H("b_skip_string_w29", "main", ["C02", "C14", "C09", "C01"], ["Parser::skip_string (32-byte block path + tail)", "Parser::skip_escaped_chars", "u8x32::{eq,le,bitmask}"],
      "38-byte buffer: neutral 'x' except a 6-byte symbolic window at 29..35 (across the block edge) and a closing quote at 36",
      stubs=[CUT_SYNTAX, MAXEPU8], timeout=1500, exp_gb=8, mem_gb=20,
      unwindset=[("::skip_string", -1, 10), ("ref_string_end", None, 40), ("ref_has_backslash", None, 40), ("windowed", None, 8), ("skip_escaped_chars", None, 6)]),
]

HARNESSES += [
    H("b_skip_string_unchecked_w27", "main", ["C10", "C12", "C01"], ["Parser::skip_string_unchecked (32-byte block path, escape carry between blocks)", "get_escaped_branchless_u32"],
      "64-byte buffer: neutral 'x' except a 10-byte symbolic window at 27..37 (across the block edge) and a closing quote at 40; well-formed literals only",
      stubs=[CUT_SYNTAX], timeout=1500, exp_gb=6,
      unwindset=[("ref_string_end", None, 66), ("ref_has_backslash", None, 66), ("windowed", None, 12), ("::skip_string_unchecked", None, 6)]),
    H("b_skip_string_unchecked_tail_w27", "main", ["C10", "C12", "C13", "C01"], ["Parser::skip_string_unchecked (block loop, then the scalar tail with the escape carry)"],
      "40-byte buffer: neutral 'x' except a 10-byte symbolic window at 27..37 and a closing quote at 38; well-formed literals only",
      stubs=[CUT_SYNTAX], timeout=1500, exp_gb=6,
      unwindset=[("ref_string_end", None, 50), ("ref_has_backslash", None, 50), ("windowed", None, 12), ("::skip_string_unchecked", -1, 16)]),
    H("b_skip_space_cache_w2", "main", ["C02", "C10", "C14", "C01"], ["Parser::skip_space (64-byte block path, non-space bitmap cache fast path)", "util::arch::fallback::get_nonspace_bits"],
      "80-byte buffer: two leading whitespace bytes, a 10-byte symbolic window at 2..12, neutral 'x' elsewhere; three consecutive calls",
      timeout=1500, exp_gb=6,
      unwindset=[("get_nonspace_bits", None, 66), ("ref_skip_ws", None, 16), ("windowed", None, 12), ("::skip_space", -1, 16), ("b_skip_space_cache_w2", None, 5)]),
    H("b_skip_number_w30", "main", ["C02", "C14", "C08", "C01"], ["Parser::do_skip_number (32-byte block path, is_float carry, exponent inside a block)", "i8x32::{gt,bitmask}"],
      "66-byte buffer of digits with a 6-byte symbolic window at 30..36 (lanes 28..31 of the first chunk and 0..1 of the next) and a comma at 44",
      stubs=[CUT_SYNTAX], timeout=1800, exp_gb=8, mem_gb=20,
      unwindset=[("ref_number_end", None, 48), ("windowed", None, 8), ("::do_skip_number", -1, 14), ("::do_skip_number", -2, 14), ("::skip_exponent", None, 16)]),
]

HARNESSES += [
    H("m_number_visit_raw_n7", "main", ["C03", "C08"], ["Parser::parse_number_visit (copying DOM driver, use_rawnumber)", "Parser::parse_number_inplace (in-place DOM driver, use_rawnumber)"],
      "every buffer of length <= 7 x every start index of a number x both drivers", stubs=[CUT_SYNTAX, M_NUM]),
]

HARNESSES += [
    H("k_position_from_index_n8", "main", ["C20"], ["reader::Position::from_index"], "every buffer of length <= 8 x every index (usize)"),
    H("u_utf8_deferred_verdict_n6", "main", ["C02", "C20"], ["Read::check_utf8_final", "Read::next_invalid_utf8", "error::invalid_utf8"],
      "every buffer of length <= 6 x every position of the first invalid byte (the verdict itself comes from simdutf8, trusted)", stubs=[CUT_SYNTAX]),
]

HARNESSES += [
    H("w_buffered_writer_short_writes", "main", ["C05"], ["writer::BufferedWriter::{write,reserve_with,flush_len}", "WriteExt for Vec<u8>"],
      "inner writer accepting 1..=4 bytes per call x <= 4 symbolic committed bytes between two punctuation writes", stubs=[CUT_FMT]),
    H("w_io_bufwriter_order", "main", ["C05"], ["WriteExt for io::BufWriter<W>::{reserve_with,flush_len}", "WriteExt for Vec<u8>"],
      "one pending byte in the BufWriter followed by two committed bytes (symbolic values)", stubs=[CUT_FMT], exp_gb=6),
]

M_DOMSTR = "contract model: Parser::parse_string_owned / parse_string_inplace -> RFC 8259 string recogniser + string event (decoding itself is C09's subject)"
M_DOMVAL = "contract model: Parser::parse_value / parse_value2 -> whitespace + abstract value recogniser E + value event (induction hypothesis)"
HARNESSES += [
    H("m_dom_object2_n8", "main", ["C02", "C03"], ["Parser::parse_object2 (copying DOM driver)", "Parser::parse_object_clo"],
      "every buffer of length <= 8 after '{' x every E; whole event stream compared", stubs=[CUT_SYNTAX, M_WS, M_DOMSTR, M_DOMVAL], timeout=1200),
    H("m_dom_array2_n7", "main", ["C02", "C03"], ["Parser::parse_array2 (copying DOM driver)", "nested! (depth budget)"],
      "every buffer of length <= 7 after '[' without a directly nested '[' x every E; whole event stream compared",
      stubs=[CUT_SYNTAX, M_WS, M_DOMSTR, "contract models: parse_number_visit / parse_literal_visit -> recogniser + leaf event; parse_object2 -> abstract E + value event"], timeout=1200),
    H("m_dom_array_n7", "main", ["C02", "C03"], ["Parser::parse_array (in-place DOM driver)", "nested! (depth budget)"],
      "every buffer of length <= 7 after '[' without a directly nested '[' x every E; whole event stream compared",
      stubs=[CUT_SYNTAX, M_WS, M_DOMSTR, "contract models: parse_number_inplace / parse_literal_visit -> recogniser + leaf event; parse_object -> abstract E + value event"], timeout=1200),
    H("m_dom_object_n8", "main", ["C02", "C03"], ["Parser::parse_object (in-place DOM driver)", "Parser::parse_object_clo"],
      "every buffer of length <= 8 after '{' x every E; whole event stream compared", stubs=[CUT_SYNTAX, M_WS, M_DOMSTR, M_DOMVAL], timeout=1200),
]

CUT_DROP = "cut: core::mem::drop -> forget (the recursive drop glue of Parsed/OwnedLazyValue exhausts memory; which decoding is returned/cached is decided, that a box is freed is not)"
HARNESSES += [
    H("e_owned_load", "main", ["C18", "C01"], ["lazyvalue::owned::LazyRaw::load", "LazyRaw::clone_lazyraw"],
      "one shared LazyRaw: 2 loads by the reader under test + clone, the other reader's publish at any atomic step", native_replay=False,
      stubs=[ATOMIC, "cut: Parser::load_owned_lazyvalue -> fixed decoding Bool(true)", "cut: Read::from -> empty reader (unused by the cut parser)", CUT_DROP],
      timeout=1500, mem_gb=28, exp_gb=10),
    H("e_owned_load_then_parse", "main", ["C13", "C18", "C01"], ["LazyRaw::load", "LazyRaw::parse"],
      "sequence: optional shared read that fills the cache, then the mutable take-out; the cache must not keep the pointer it handed out", native_replay=False,
      stubs=[ATOMIC, "cut: Parser::load_owned_lazyvalue -> fixed decoding Bool(true)", "cut: Read::from -> empty reader", CUT_DROP], timeout=1500, mem_gb=28, exp_gb=10),
    H("u_owned_mut_probe_keeps_raw", "main", ["C13"], ["OwnedLazyValue::as_array_mut", "OwnedLazyValue::as_object_mut", "LazyRaw::get_type"],
      "four concrete raw texts (number, escaped string, {}, []) probed for the other container kind",
      stubs=["cut: Parser::load_owned_lazyvalue -> fixed decoding", "cut: Read::from -> empty reader", CUT_DROP], timeout=1500, mem_gb=28, exp_gb=10),
]

CUT_PF = "cut: sonic_number::parse_float -> nondeterministic Ok(Float)/Err(FloatMustBeFinite) (classification and index only)"
HARNESSES += [
    H("u_parse_number_int_len1_12", "number", ["C07", "C08"], ["sonic_number::parse_number (integer path)"],
      "every decimal digit string of length 1..=12 without superfluous leading zero, with and without '-'", stubs=[CUT_PF]),
    H("u_parse_number_int_len19", "number", ["C07", "C08"], ["sonic_number::parse_number (integer path, 19 digits)"],
      "every 19-digit string, with and without '-' (i64::MIN / 2^63 boundary)", stubs=[CUT_PF], timeout=1500),
    H("u_parse_number_int_len20", "number", ["C07", "C08"], ["sonic_number::parse_number (integer path, 20 digits, overflowing_mul/add cut-over)"],
      "every 20-digit string, with and without '-' (u64::MAX boundary)", stubs=[CUT_PF], timeout=1500),
    H("u_parse_number_int_len13_20", "number", ["C07", "C08"], ["sonic_number::parse_number (integer path)"],
      "every decimal digit string of length 13..=20, with and without '-'", stubs=[CUT_PF], tier="thorough", timeout=3600),
    H("u_parse_number_grammar_n7", "number", ["C02", "C07", "C01"], ["sonic_number::parse_number", "parse_number_fraction (scalar branch)", "parse_exponent"],
      "every byte string of length <= 7 starting with '-' or a digit", stubs=[CUT_PF]),
    H("k_parse_exponent_n8", "number", ["C07", "C01"], ["sonic_number::parse_exponent"], "every buffer of length <= 8"),
    H("k_float_fast_mul_e1", "number", ["C07"], ["sonic_number::parse_float_fast"], "E = 1, every significand < 2^20"),
    H("k_float_fast_mul_e10", "number", ["C07"], ["sonic_number::parse_float_fast"], "E = 10, every significand < 2^20", tier="thorough", timeout=2400),
    H("k_float_fast_div_e3", "number", ["C07"], ["sonic_number::parse_float_fast"], "E = -3, every significand < 2^16",
      stubs=["assumption: IEEE 754 division is correctly rounded"]),
    H("k_float_fast_div_e10", "number", ["C07"], ["sonic_number::parse_float_fast"], "E = -10, every significand < 2^16",
      stubs=["assumption: IEEE 754 division is correctly rounded"], tier="thorough", timeout=2400),
    H("k_decimal_try_add_digit", "number", ["C01", "C07"], ["sonic_number::decimal::Decimal::try_add_digit"],
      "every digit count 0..=MAX_DIGITS+4 x every digit (complete)"),
    H("k_decimal_round_6", "number", ["C07"], ["sonic_number::decimal::Decimal::round"],
      "every trimmed decimal of <= 6 significant digits x decimal point in -1..=7 x truncated flag"),
    H("k_pow10_tables", "number", ["C07"], ["POW10_FLOAT", "POW10_UINT"], "all 23 / 18 entries (complete)"),
]

SIMD_IN = [
    ("k_simd_u8x16_eq", "u8x16 loadu/storeu/eq/bitmask (sse2.rs)"), ("k_simd_u8x16_le", "u8x16 le (sse2.rs)"),
    ("k_simd_u8x16_splat", "u8x16 splat"), ("k_simd_u8x32_eq", "u8x32 loadu/storeu/eq/bitmask (v256.rs over sse2.rs)"),
    ("k_simd_u8x32_le", "u8x32 le"), ("k_simd_u8x32_splat", "u8x32 splat"),
    ("k_simd_u8x64_eq", "u8x64 loadu/storeu/eq/bitmask (v512.rs)"), ("k_simd_u8x64_le", "u8x64 le"),
    ("k_simd_u8x64_splat", "u8x64 splat"), ("k_simd_i8x16", "i8x16 gt/le/eq/splat/loadu/storeu"),
    ("k_simd_i8x32", "i8x32 gt/le/eq/splat/loadu/storeu"), ("k_simd_i8x64", "i8x64 gt/le/eq/splat/loadu/storeu"),
    ("k_simd_mask256_ops", "m8x32 | & |= splat bitmask"), ("k_bits_u16", "BitMask for u16"),
    ("k_bits_u32", "BitMask for u32"), ("k_bits_u64", "BitMask for u64"),
]
for _n, _f in SIMD_IN:
    HARNESSES.append(H(_n, "simd", ["C17"], [_f], "all inputs, every lane via a symbolic lane index (complete)",
                       stubs=[MAXEPU8] if _n.endswith("_le") else [], timeout=600))

INTR = "env models (validated natively against the CPU by selftest): "
for _be, _what in (("portable", "v128.rs + v256.rs + v512.rs"), ("native", "sse2.rs + avx2.rs + v512.rs")):
    for _fn, _f in (("u8x32", "u8x32 loadu/storeu/eq/le/splat/bitmask"), ("i8x32", "i8x32 gt/le/eq/splat/bitmask"),
                    ("u8x64", "u8x64 eq/le/bitmask"), ("mask_ops", "m8x32 | & |= splat")):
        HARNESSES.append(H("x_%s_%s" % (_be, _fn), "ext", ["C17"], ["%s backend (%s): %s" % (_be, _what, _f)],
                           "all inputs, every lane via a symbolic lane index (complete)",
                           stubs=[INTR + "_mm_max_epu8, _mm256_max_epu8"] if _fn.startswith("u8") else [],
                           qname="harness::k_%s::%s" % (_be, _fn), timeout=600))
HARNESSES += [
    H("x_arch_prefix_xor", "ext", ["C17", "C10"], ["util::arch::x86_64::prefix_xor", "util::arch::fallback::prefix_xor"],
      "all 2^64 masks (complete)", stubs=[INTR + "_mm_clmulepi64_si128"], qname="harness::k_arch_prefix_xor"),
    H("x_arch_nonspace_native", "ext", ["C17"], ["util::arch::x86_64::get_nonspace_bits"],
      "all 64-byte blocks, every lane (complete)", stubs=[INTR + "_mm256_shuffle_epi8"], qname="harness::k_arch_nonspace_native"),
    H("x_arch_nonspace_fallback", "ext", ["C17", "C10", "C02"], ["util::arch::fallback::get_nonspace_bits"],
      "all 64-byte blocks, every lane (complete)", qname="harness::k_arch_nonspace_fallback"),
] + [
    H("x_num_str2int_%d" % _k, "ext", ["C17", "C07"] if _k in (1, 8) else ["C17"], ["sonic_number::arch::x86_64::simd_str2int", "sonic_number::arch::fallback::simd_str2int"],
      "need = %d, all 16-byte inputs whose first byte is a digit (complete under the callers' precondition)" % _k,
      stubs=[INTR + "_mm_maddubs_epi16, _mm_madd_epi16, _mm_packus_epi32, _mm_sub_epi8 (wrapping)"], qname="harness::k_num_str2int_%d" % _k, timeout=1200 if _k <= 8 else 5400, tier="quick" if _k <= 8 else "thorough")
    for _k in range(1, 10)  # need = 10..16 did not finish within 20 minutes (64-bit multiply chains); see DESIGN.md
] + []

BY_NAME = {h.name: h for h in HARNESSES}


def harnesses_for(prop, tier):
    out = []
    for h in HARNESSES:
        if prop in h.props and (h.tier == "quick" or tier == "thorough"):
            out.append(h)
    return out
