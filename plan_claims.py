"""Per-property statement of what the harness set decides, what stays outside the claim, and why
some properties are not applicable to this technique (DESIGN.md sections 5 and 6)."""

DEFAULT_LEVEL_TEXT = ("Bounded model checking of the real functions (Kani/CBMC): every harness is a solver query over all inputs "
                      "within its stated bound; the verdict is CBMC's, not a sample")
DEFAULT_LEVEL_NOTE = ("Trusted: Kani's MIR translation, CBMC, CaDiCaL, the scalar reference models (cross-checked natively against "
                      "serde_json/std at setup and at the start of every run), the listed environment models/cuts, and the paper "
                      "induction composing kernel/tail/step lemmas. Nothing is claimed outside the bounds listed in the evidence file.")

NOT_APPLICABLE = {
    "C04": ("quantifies over derive-generated visitors of a type family with serde_json as oracle; whole from_str::<T> does not fit in "
            "CBMC even for a concrete two-byte input and serde_json would have to be executed symbolically beside it; the scalar/framing "
            "units that do fit are decided under C02/C07"),
    "C06": ("needs parse . serialize . parse . serialize of one symbolic document in a single query; each factor alone is beyond CBMC's "
            "reach (arena construction, heap maps); unit-sized mechanisms are decided under C03/C05"),
    "C11": ("PointerTree is a std HashMap trie (SipHash with OS-random keys, heap nodes) walked by a recursive function interleaved with "
            "the parser; no bounded encoding of 'all path sets' fits, a fixed two-path tree would be a unit test with a solver attached"),
    "C15": ("every operation goes through Arc<Vec<Value>> / Arc<AHashMap<FastStr, Value>>; symbolic operation histories over heap-backed "
            "hash maps and vectors are CBMC's documented worst case (a 3-byte SmallVec insert ran out of memory at 30 GB)"),
    "C16": ("depends on building a parsed arena inside the model checker: DocumentVisitor driven directly by five concrete events did not "
            "finish in 20 minutes with or without an allocator model, and parse_with_padding(\"[d]\") not in 25 (DESIGN.md section 3); "
            "without an arena there is no clone/take/drop history to explore, and Kani is sequential, so the cross-thread half is out of "
            "reach as well"),
    "C19": ("two complete serde data-model implementations (value/ser.rs, value/de.rs) driven by derive code over heap containers; same "
            "reasons as C04 and C15"),
}

LEVEL_TEXT = {
    "C17": ("Complete (not merely bounded) equivalence of every vector primitive of every backend file with its lane-wise scalar definition: "
            "the input spaces are finite and fully symbolic"),
}
LEVEL_NOTE = {
    "C18": ("The schedule is an environment model of the atomic cell (other reader may publish at every atomic step, weak CAS may fail "
            "spuriously); sequentially consistent; two readers; the decoder is cut to a fixed decoding. " + DEFAULT_LEVEL_NOTE),
}

DECIDED = {
    "C01": ("No reference model: the oracle is 'no CBMC property fails' (bounds, pointer validity, overflow with debug semantics, unwrap/"
            "panic/unreachable, unwinding assertions) on every function of the anchored paths that has unsafe code, indexing, slicing or "
            "integer subtraction, run on arbitrary input of bounded size. Bounded stack is decided inductively: for the parser "
            "(m_skip_one_dispatch_n7: nested! hands the nested skipper d-1, restores d, rejects at d == 1 without recursing) and for "
            "every container entry of the serde deserializer (m_depth_*), one step for all budgets d => nesting <= 254 for every input. "
            "(thorough) The dev-profile assertions of the number pipeline - overflow, shift and index checks in parse_number, "
            "parse_number_fraction, parse_exponent, parse_float, parse_float_fast, parse_floating_normal_fast and Eisel-Lemire - are shown "
            "unreachable by the SMT runs for every digit value of 40996 literal shapes and every significand at every decimal exponent "
            "-345..345, with one exception that neither solver decides (`add + 1` in parse_floating_normal_fast, listed outside). "
            "Lifetime of what a reader hands out: the bytes Read::slice gives out for 'de over an inlined (two symbolic bytes), Arc<String> "
            "and static &FastStr are still readable after the reader is dropped (F15: they used to live in a box the reader freed)."),
    "C02": ("Differential harnesses real scanner vs. RFC 8259 reference recogniser: Ok <=> the reference accepts, and the consumed length "
            "equals the reference's - strings (scalar path on all buffers <= 8; block path by window in the thorough tier), numbers (validating "
            "skipper on all buffers <= 5/6/8 and across a 32-byte chunk edge; fully-parsing scanner <= 7), literals, colon, trailing characters, "
            "whitespace; containers inductively (array/object productions and value dispatch of the validating skipper, and the object "
            "production of both DOM drivers with their whole event stream, against an abstract nested recogniser E given as a symbolic "
            "table, for every E); the serde seq state machine and end_seq/end_map; raw-number capture; the deferred UTF-8 verdict "
            "is reported by check_utf8_final; a root Value that the padded DOM parser only closes inside its padding is rejected as EOF "
            "whatever end offset the parser reports (F13). Finiteness on the table-driven float path: every result of parse_floating_normal_fast that "
            "parse_float hands out is a finite normal double, for every significand and every exponent at both ends of the guard "
            "(thorough: all exponents) - SMT over the MIR."),
    "C03": ("The packed node metadata (kind, index-to-header, length survive Meta::pack_dom_node/unpack_dom_node for every len and every idx "
            "that fits the 29-bit field; idx >= 2^29 is known finding F6); the parser->visitor event stream of the object production of "
            "both DOM drivers (member order, duplicates, counts handed to visit_object_end) for every nested recogniser E; the raw-number "
            "span handed to the visitor by both drivers. The array drivers and the arena/read API are NOT decided (see outside_the_claim)."),
    "C05": ("format_string on every byte string <= 3 (4 and 6 thorough) equals the specified escaping with exact length and all writes inside the "
            "6n+35 window; the three escape tables for all 256 bytes; check_cross_page; non-finite floats -> null for every bit pattern; "
            "the reserve/commit protocol of BufferedWriter under short writes and of io::BufWriter (pending bytes reach the inner writer "
            "first); Formatter::write_string_fast (compact and pretty) on every ASCII string <= 2 incl. the empty one, quoted or not (the "
            "collect_str fragments), hands the escaper a window >= 6n+35 and commits exactly the specified escaping."),
    "C07": ("Integers: every digit string of 1..12, 19 and 20 digits (13..20 thorough) with and without '-' yields the exact u64/i64 "
            "with the right classification or a float exactly when it does not fit (expected value computed in u128); -0 is the float "
            "negative zero; grammar and stop index of the fully-parsing scanner on all byte strings <= 7; exponent scanner saturation; "
            "power-of-ten tables; Clinger fast path for fixed exponents and 20/16-bit significands; SSE simd_str2int == scalar for "
            "need <= 8 (9 thorough); of the big-decimal fallback the two kernels within reach: Decimal::try_add_digit never writes outside "
            "the digit buffer, Decimal::round is round-half-even on every trimmed decimal of <= 6 digits. "
            "Table-driven float construction, by SMT over the compiler's MIR (crate 'smt'): for every decimal exponent in the stated set "
            "(quick: both ends of the table-product guard, every 16th exponent and all of -6..24; thorough: every exponent in -345..345) and "
            "EVERY significand 1 <= w < 10^19 with no digit dropped, every path of parse_float that returns a double built by interpreted "
            "integer code - parse_floating_normal_fast, and the Eisel-Lemire constructor compute_float + biased_fp_to_float that takes "
            "over when the table product is ambiguous or the exponent is outside its guard - returns the bits of the double nearest (ties "
            "to even) to w*10^e with the sign asked for: finite and normal for exponents >= -307, and for -345..-308 (decided per value "
            "of leading_zeros(w)) including subnormal results and zero; parse_float rejects as "
            "non-finite only when the exact value rounds to infinity; and the one-operation path parse_float_fast (w < 2^52, exponent "
            "-22..37) multiplies/divides exactly known operands only (w, 10^k, and an intermediate product shown to be an integer below "
            "2^53), so that its single IEEE operation is the rounding of exactly w*10^e. Truncated significands (more digits than the scanner "
            "keeps; trunc == true, 10^16 <= w < 10^19 as the scanner check shows): whenever parse_float answers from the Eisel-Lemire results "
            "for w and w+1 being equal, that answer is the rounding of both w*10^e and (w+1)*10^e, hence of the literal's exact value in "
            "between (quick: 7 exponents; thorough: every exponent -307..345 except -4, where one query stays undecided). The SSE digit reader simd_str2int (the 16-digit fraction reader of "
            "target-cpu=native builds) equals the decimal value of the digits for every need 1..16, every position and class of the "
            "first non-digit and every byte value (SMT over its MIR with lane-wise intrinsic models). The scanner in front of them, "
            "parse_number with parse_number_fraction and parse_exponent, by SMT per literal shape (1764 shapes quick, 40996 thorough, incl. malformed ones that must be rejected: sign x "
            "0 or 1..22 integer digits x 0..22 fraction digits x exponent forms x end-of-input/more input) for EVERY value of every digit: "
            "it consumes exactly the literal, returns the exact u64/i64 with the right class or the signed zero, never rejects a "
            "well-formed literal, and otherwise hands parse_float a significand/exponent pair that denotes the literal exactly "
            "(1 <= w < 10^19, no digit dropped) or brackets it (trunc) together with the raw text - the precondition of the float runs; the same "
            "1764 shapes on the MIR of the target-cpu=native build, where the fraction goes through the SSE reader (s_parse_number_shapes_native)."),
    "C08": ("Raw numbers: deserialize_rawnumber (bare and quoted) captures exactly the span the number grammar delimits and rejects "
            "everything else; the validating number skipper == grammar; non-finite floats -> null; the integer clause by reduction: "
            "every digit string itoa can emit is read back exactly (C07 integer harnesses), every integer of every width incl. 128 bits is handed to itoa unchanged "
            "(u_int_widths_reach_itoa), itoa's contract trusted; the read-back half "
            "of the float clause for the table-driven constructor: every <= 19-digit significand with a decimal exponent in the stated set "
            "is read as the nearest double (SMT over MIR, see C07), so a shortest-round-trip digit string of that shape reads back to the "
            "double it denotes."),
    "C09": ("All code points / surrogates: for every `\\uXXXX` + 6 following bytes (2^80 inputs) both real decoders' escape handlers "
            "(handle_unicode_codepoint_mut in place, parse_escaped_utf8 + codepoint_to_utf8 copying) produce exactly what UTF-16 "
            "semantics prescribe, strict and lossy, and consume exactly what they decode; hex and UTF-8 encoders complete; the block "
            "classifier on all 32-byte blocks; ESCAPED_TAB; the skip-only decoder end to end (scalar <= 8, block path by window); the "
            "borrowed branch of the borrow-or-copy decoder."),
    "C10": ("Skippers reduced to contracts, walkers proved against the reference lookup given those contracts: escaped-bit kernels for "
            "all inputs; the zero-padded tail of the bitmap container skipper on all buffers <= 8; one 64-byte step from an arbitrary carry "
            "state with the first three bytes of the block symbolic (what a pending escape / open string carried in does to a block "
            "without backslashes; quick) and by 16-byte windows at offsets 0/16/32/48 (thorough); the trusting string skipper on every well-formed literal <= 8 and across a "
            "32-byte block edge (carry between blocks, and from the block loop into the scalar tail); token search (scalar and block path); "
            "checked array/object walkers + final skip == reference lookup (first duplicate wins, span exact, not-found only for a missing "
            "key/index) for every nested recogniser E; prefix_xor native == fallback."),
    "C12": ("One step of the lazy array driver and of the lazy object driver from every (first, position) == the iteration grammar for every "
            "element recogniser E (escape-free keys); the iterator latch: after an error (including the up-front invalid-UTF-8 error) or the "
            "end every later call yields None (one step from an arbitrary state); the unchecked iterators' string skipper across block edges; "
            "the unchecked iterators' number skipper stops exactly at the end of the number on every buffer <= 7 (F14: the span "
            "used to include the blanks in front of the separator); the validating array/object skippers every element of a checked iterator "
            "goes through (m_skip_array_n6, m_skip_object_n6: accept exactly the grammar, blanks inside empty brackets included); borrowed "
            "keys cut from a reader over &FastStr outlive the iterator (F15)."),
    "C13": ("Partial: skip_one returns the exact span and escape status (what LazyValue captures); OwnedLazyValue built from raw text of "
            "every JSON value class (From<LazyValue>, new) reports the same type/bool/null answers and never reaches unreachable!(); a failed "
            "as_array_mut/as_object_mut probe, and a get_mut with an index kind that cannot apply, leave a raw value untouched and never "
            "decode it; the clone of a raw value is still the raw text whether or not its decoding was cached, with its own copy of the "
            "cache (F12); the clone of a LazyValue keeps its escape status; From<LazyValue> of an escaped string is the raw text with an empty cache "
            "whether or not as_str() ran on it (or on the value it was cloned from) before; (thorough) taking the cached decoding out of a LazyRaw empties "
            "the cache."),
    "C14": ("The C02/C10 harnesses read in the other direction: whenever the validating skipper / checked walkers / checked iterator "
            "driver return Ok(span), the reference accepts exactly that span and everything traversed before it."),
    "C17": ("(a) every vector primitive of every backend file (sse2.rs, v256.rs, v512.rs as selected on this target; avx2.rs and v128.rs "
            "#[path]-included into an external crate) equals its lane-wise scalar definition for all inputs; (b) prefix_xor and "
            "get_nonspace_bits of arch/x86_64.rs equal arch/fallback.rs and the scalar definition on all masks/blocks, simd_str2int of "
            "sonic-number's x86_64 backend equals the fallback under the callers' precondition (Kani for need <= 8, 9 thorough; every need "
            "1..16 by SMT over its MIR, s_simd_str2int; and the whole number scanner around it gives the same (w, q, trunc) / integer results on "
            "the native-feature MIR as the specification demands, s_parse_number_shapes_native); (c) the rest of the code is "
            "backend-independent text, so equality of observable results follows by congruence."),
    "C18": ("Both publish-once caches under every two-reader interleaving at atomic-step granularity, including spurious weak-CAS "
            "failure. Inner::parse_from: every read returns the one cached decoding, every decoding ever created ends with no outstanding "
            "reference (explicit ledger), and without the ledger the real frees pass CBMC's dealloc-layout/double-free/use-after-free "
            "checks. LazyRaw::load: every load returns the decoding that is cached (never null/dangling) and the cell holds exactly it "
            "(frees cut, see stubs)."),
    "C20": ("Error::syntax reports offset == index and exactly the line/column of that offset for every input <= 6 and every index, "
            "without panicking in the snippet window arithmetic; Parser::error clamps to the document length for both readers "
            "(including a cursor inside the 64-byte padding); classify() yields NotFound only for the four lookup codes; the stream "
            "deserializer and both lazy iterators latch after an error/end; the root Value parsed from the utf8_lossy copy of an input with one "
            "invalid byte (two invalid sequences thorough): every end / error offset the DOM parser may report in the copy is mapped to the corresponding offset of the "
            "input, never beyond it (F16)."),
}

OUTSIDE = {
    "C01": ["the dev-profile overflow assertion at `add + 1` in parse_floating_normal_fast (lo + hi2 == u64::MAX while the low nine bits of hi "
            "are all equal): undecided by z3 and cvc5; a continued-fraction search over all table entries found no significand that reaches "
            "it; release builds wrap there by design", "leaks in general (only the C18 ledger counts references)", "parse_string_inplace and the sufficiency of the 64-byte padding "
            "(symbolic execution does not terminate on its pointer->integer cursor arithmetic)", "the copying decoder's Vec traffic "
            "(parse_string_escaped)", "DocumentVisitor / arena node buffer (did not fit)", "PointerTree walkers (get_many, get_by_schema)",
            "carriers Bytes/FastStr/String, from_reader", "the release-only over-read branch of format_string's tail (covered only by "
            "k_check_cross_page)", "dependencies' internals (simdutf8, bytes, faststr, bumpalo, ahash, itoa, ryu)",
            "stack *size* per frame (only the nesting bound is decided)"],
    "C02": ["UTF-8 validation (simdutf8 is a trusted dependency; the deferred-error plumbing is not decided)", "the in-place DOM string decoder "
            "and the copying decoder's escape branch end to end (kernels only)", "finiteness of floats on the Eisel-Lemire / big-decimal tiers (their own `is_infinite` check is read, not decided)",
            "parse_array/parse_array2 bodies (the array DOM drivers; the object drivers are decided)",
            "MapAccess::next_key_seed, enum framing", "inputs whose deciding bytes are farther apart than the window / N"],
    "C03": ["the array DOM drivers parse_array/parse_array2 (recursion into the function under test made the harness time out)",
            "DocumentVisitor, arena layout, back-pointer header, read API (as_ref2, slices): the arena half did not fit in CBMC (DESIGN.md section 3)",
            "values of numbers (C07) and decoded strings (C09) inside the DOM"],
    "C05": ["arbitrary value families (derive code is not explored)", "itoa/ryu digit generation", "the Compound comma/colon/indent machine "
            "and a failing writer end to end (harnesses w_compound_shape / w_failing_writer ran out of memory)", "BytesMut writers", "MapKeySerializer beyond char and integer keys",
            "strings >= 32 bytes (block path of format_string: b_format_string_w28 needs 21 minutes and is not registered)",
            "the release-only over-read branch"],
    "C07": ["the big-decimal fallback parse_long_mantissa (taken for > 19 significant digits whenever Eisel-Lemire's two answers differ or it "
            "does not answer): NOT covered (paths through them are counted as opaque by the SMT runs); that Eisel-Lemire "
            "*decides* (does not fall back) is not claimed either", "the dev-profile overflow assertion at `add + 1` in parse_floating_normal_fast (neither "
            "solver decides it; release builds wrap there by design)", "literals with more than 22 integer or 22 fraction digits or more than 3 exponent digits, and rejection of "
            "malformed literals beyond 7 bytes (the grammar is decided by u_parse_number_grammar_n7 / u_skip_number_*)", "typed narrowing by serde's primitive "
            "visitors", "the call site of the 16-digit SIMD fraction reader inside parse_number_fraction on inputs >= 16 bytes (the kernel is decided, by Kani for need <= 9 and by SMT for 1..16)"],
    "C08": ["ryu digit generation and its read-back for f64/f32", "reading 128-bit integers back (the u128 scanner of the serde deserializer)", "Serialize for RawNumber / numeric accessors of RawNumber"],
    "C09": ["parse_string_inplace loops and padding", "parse_string_escaped / parse_escaped_char (Vec traffic) end to end",
            "lossy repair of invalid UTF-8 bytes (String::from_utf8_lossy path)", "strings > 40 bytes / more than one interesting window"],
    "C10": ["unchecked walkers get_from_object/get_from_array end to end (their skippers are decided, the walkers are not)",
            "escaped keys", "JsonInput::from_subset / slice_ref re-attachment for Bytes/FastStr", "Value::pointer/get, OwnedLazyValue::get",
            "two interesting windows within one 64-byte block"],
    "C12": ["keys with escapes (copying key decoder)", "unchecked iterators vs checked on well-formed input end to end", "carriers"],
    "C13": ["as_number/child access (whole from_str calls)", "verbatim emission through RawValueStrEmitter", "owned-lazy mutation histories "
            "(heap vectors)", "as_array/as_object views (fixed by bc7bb48, demonstrated natively, not re-decided by a harness)",
            "that boxes of the owned-lazy cache are freed (recursive drop glue cut)"],
    "C14": ["get_many / get_by_schema walkers (PointerTree)", "prefix UTF-8 validation after the walk", "object iterator driver"],
    "C17": ["the neon backend (not this target)", "simdutf8's own runtime dispatch (trusted dependency)",
            "u8::gt is todo!() in sse2.rs/avx2.rs and has no caller",
            "the congruence step itself (the argument is on paper)"],
    "C18": ["memory-ordering adequacy (model is sequentially consistent)", "three or more readers", "release of the losing / cached "
            "Box<Parsed> in LazyRaw::load and Drop for LazyRaw (recursive drop glue of the owned-lazy value type exhausts memory; cut)",
            "LazyRaw::clone_lazyraw (recursive clone glue)"],
    "C20": ["that each specific error site passes the index a user would expect", "make_error/parse_line_col text re-parsing of visitor "
            "messages", "Display rendering"],
}
