"""Per-property statement of what the harness set decides, what stays outside the claim, and why
some properties are not applicable to this technique (DESIGN.md sections 5 and 6)."""

DEFAULT_LEVEL_TEXT = ("Bounded model checking of the real functions (Kani/CBMC): every harness is a solver query over all inputs "
                      "within its stated bound; the verdict is CBMC's, not a sample")
DEFAULT_LEVEL_NOTE = ("Trusted: Kani's MIR translation, CBMC, CaDiCaL, the scalar reference models (cross-checked natively against "
                      "serde_json/std at setup and at the start of every run), the listed environment models/cuts, and the paper "
                      "induction composing kernel/tail/step lemmas. Nothing is claimed outside the bounds listed in the evidence file.")

NOT_APPLICABLE = {
    "C04": ("quantifies over derive-generated visitors of a type family with serde_json as oracle; whole from_str::<T> does not fit in "
            "CBMC even for a concrete two-byte input and serde_json would have to be executed symbolically beside it; the scalar/framing "
            "units that do fit are decided under C02/C07"),
    "C06": ("needs parse . serialize . parse . serialize of one symbolic document in a single query; each factor alone is beyond CBMC's "
            "reach (arena construction, heap maps); unit-sized mechanisms are decided under C03/C05"),
    "C11": ("PointerTree is a std HashMap trie (SipHash with OS-random keys, heap nodes) walked by a recursive function interleaved with "
            "the parser; no bounded encoding of 'all path sets' fits, a fixed two-path tree would be a unit test with a solver attached"),
    "C15": ("every operation goes through Arc<Vec<Value>> / Arc<AHashMap<FastStr, Value>>; symbolic operation histories over heap-backed "
            "hash maps and vectors are CBMC's documented worst case (a 3-byte SmallVec insert ran out of memory at 30 GB)"),
    "C19": ("two complete serde data-model implementations (value/ser.rs, value/de.rs) driven by derive code over heap containers; same "
            "reasons as C04 and C15"),
}

LEVEL_TEXT = {}
LEVEL_NOTE = {}

DECIDED = {
    "C17": ("(a) every vector primitive of every backend file (sse2.rs, v256.rs, v512.rs as selected on this target; avx2.rs and v128.rs "
            "#[path]-included into an external crate) equals its lane-wise scalar definition for all inputs; (b) prefix_xor and "
            "get_nonspace_bits of arch/x86_64.rs equal arch/fallback.rs and the scalar definition on all masks/blocks, simd_str2int of "
            "sonic-number's x86_64 backend equals the fallback under the callers' precondition; (c) the rest of the code is "
            "backend-independent text, so equality of observable results follows by congruence."),
}

OUTSIDE = {
    "C17": ["the neon backend (not this target)", "simdutf8's own runtime dispatch (trusted dependency)",
            "u8::gt is todo!() in sse2.rs/avx2.rs and has no caller",
            "the congruence step itself (a census of cfg sites is printed, the argument is on paper)"],
}
