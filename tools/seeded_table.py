#!/usr/bin/env python3
"""Regenerate the 'which check catches which seeded change' table at the end of DESIGN.md."""
import glob, json, os, re

rows = []
for d in sorted(glob.glob("/verif/seeded/*/")):
    name = os.path.basename(d.rstrip("/"))
    meta = json.load(open(os.path.join(d, "meta.json")))
    res = []
    for rf in sorted(glob.glob(os.path.join(d, "result-*.json"))):
        r = json.load(open(rf))
        label = os.path.basename(rf)[7:-5]
        verdict = "**caught**" if r["exit"] == 1 else ("inconclusive" if r["exit"] == 2 else "missed")
        res.append("%s: %s" % (label.replace("dev-", ""), verdict))
    note = meta.get("verif_note", "")
    rows.append((name, meta.get("property", ""), meta.get("summary", "").replace("|", "/").replace("\n", " ")[:230],
                 "; ".join(res) if res else "not run", note))

MARK = "<!-- SEEDED-TABLE -->"
tab = [MARK, "", "| seed | property | change | checks run against it | note |", "|---|---|---|---|---|"]
for r in rows:
    tab.append("| %s | %s | %s | %s | %s |" % r)
caught = sum(1 for r in rows if "**caught**" in r[3])
tab.append("")
tab.append("%d of %d confirmed seeded changes are caught by at least one check; the rest are discussed in the notes column "
           "(outside the stated claim, or a gap that remains)." % (caught, len(rows)))
p = "/verif/DESIGN.md"
s = open(p).read()
if MARK in s:
    s = s[:s.index(MARK)]
s = s.rstrip("\n") + "\n\n" + "\n".join(tab) + "\n"
open(p, "w").write(s)
print("table: %d seeds, %d caught" % (len(rows), caught))
