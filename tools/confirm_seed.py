#!/usr/bin/env python3
"""Confirm a seeded mutation in its scratch worktree and keep it under /verif/seeded/<name>/.

usage: confirm_seed.py <worktree> <out_subdir> <name>
  e.g. confirm_seed.py /tmp/mut/C07 OUT/1 C07-a
Checks: patch applies; test suite passes with it; demo fails with it; demo passes without it.
"""
import json, os, re, shutil, subprocess, sys

wt, sub, name = sys.argv[1], sys.argv[2], sys.argv[3]
src = os.path.join(wt, sub)
env = dict(os.environ, CARGO_NET_OFFLINE="true", RUST_BACKTRACE="0")


def sh(cmd, **kw):
    return subprocess.run(cmd, shell=True, cwd=wt, env=env, capture_output=True, text=True, **kw)


def run_demo():
    shutil.copy(os.path.join(src, "demo.rs"), os.path.join(wt, "examples", "zz_seed_demo.rs"))
    r = sh("cargo run --offline --example zz_seed_demo 2>&1 | tail -5; exit ${PIPESTATUS[0]}", executable="/bin/bash") if False else \
        subprocess.run(["bash", "-c", "cargo run --offline --example zz_seed_demo > /tmp/zz_seed_demo.out 2>&1; echo $?"], cwd=wt, env=env, capture_output=True, text=True)
    rc = int(r.stdout.strip().splitlines()[-1])
    os.remove(os.path.join(wt, "examples", "zz_seed_demo.rs"))
    return rc, open("/tmp/zz_seed_demo.out", errors="replace").read()[-400:]


res = {}
sh("git checkout -- . && git clean -fdq examples")
r = sh("git apply --check %s/patch.diff && git apply %s/patch.diff" % (src, src))
res["applies"] = r.returncode == 0
t = sh("cargo test --workspace --no-fail-fast --offline 2>&1 | grep -E '^test result|FAILED'")
oks = re.findall(r"test result: ok\. (\d+) passed; 0 failed", t.stdout)
res["tests_with_patch"] = t.stdout.strip().splitlines()
res["tests_pass_with_patch"] = [int(x) for x in oks][:2] == [90, 145] and "FAILED" not in t.stdout
rc1, out1 = run_demo()
res["demo_rc_with_patch"] = rc1
res["demo_tail_with_patch"] = out1
sh("git checkout -- .")
rc0, out0 = run_demo()
res["demo_rc_without_patch"] = rc0
res["confirmed"] = bool(res["applies"] and res["tests_pass_with_patch"] and rc1 != 0 and rc0 == 0)
meta = json.load(open(os.path.join(src, "meta.json")))
meta["confirmation"] = res
meta["what_i_ran"] = ["git apply patch.diff", "cargo test --workspace --no-fail-fast --offline (90 + 145 pass)",
                      "cargo run --offline --example <demo> with the patch (non-zero exit)", "same without the patch (exit 0)"]
print(name, "confirmed" if res["confirmed"] else "NOT CONFIRMED", {k: res[k] for k in ("applies", "tests_pass_with_patch", "demo_rc_with_patch", "demo_rc_without_patch")})
if res["confirmed"]:
    dst = os.path.join("/verif/seeded", name)
    os.makedirs(dst, exist_ok=True)
    shutil.copy(os.path.join(src, "patch.diff"), dst)
    shutil.copy(os.path.join(src, "demo.rs"), dst)
    json.dump(meta, open(os.path.join(dst, "meta.json"), "w"), indent=1)
