#!/usr/bin/env python3
"""Run checks against a seeded mutation: apply the patch to /repo, start the check (it copies
/repo's working tree at start), undo the patch as soon as the copy is taken, wait for the verdict.

usage: run_seeded.py <seed name> (--prop Cxx [--tier quick] | --dev harness [harness ...])
"""
import json, os, subprocess, sys, time, fcntl

VERIF = "/verif"
name = sys.argv[1]
args = sys.argv[2:]
seed = os.path.join(VERIF, "seeded", name)
patch = os.path.join(seed, "patch.diff")
lock = open("/tmp/verif-repo.lock", "a")
fcntl.flock(lock, fcntl.LOCK_EX)  # one patched /repo at a time
try:
    st = subprocess.run("git -C /repo status --porcelain", shell=True, capture_output=True, text=True).stdout.strip()
    assert st == "", "/repo is not clean: " + st
    subprocess.run(["git", "-C", "/repo", "apply", patch], check=True)
    if args[0] == "--prop":
        cmd = ["python3", os.path.join(VERIF, "run_check.py"), args[1]] + args[2:]
        label = args[1]
    else:
        cmd = ["python3", os.path.join(VERIF, "run_check.py"), "--dev"] + args[1:]
        label = "dev-" + "+".join(args[1:])[:60]
    logp = os.path.join("/tmp", "seeded-%s-%s.log" % (name, label))
    env = dict(os.environ, VERIF_EVIDENCE_DIR="/tmp/seeded-evidence", VERIF_REPO_LOCKED="1")
    with open(logp, "w") as lf:
        p = subprocess.Popen(cmd, stdout=lf, stderr=subprocess.STDOUT, cwd=VERIF, env=env)
        t0 = time.time()
        while time.time() - t0 < 120:
            if "[prep]" in open(logp, errors="replace").read() or p.poll() is not None:
                break
            time.sleep(0.5)
finally:
    subprocess.run("git -C /repo checkout -- . ", shell=True)
    fcntl.flock(lock, fcntl.LOCK_UN)
rc = p.wait()
out = open(logp, errors="replace").read()
lines = [l for l in out.splitlines() if l.startswith(("VIOLATION", "INCONCLUSIVE", "SUMMARY", "KNOWN-FINDING", "  failed:")) or "] " in l and (" fail " in l or " pass " in l or "inconclusive" in l)]
viol = any(l.startswith("VIOLATION") for l in out.splitlines())
res = {"seed": name, "cmd": " ".join(cmd), "exit": rc, "detected": rc == 1 and viol, "lines": lines[-40:]}
json.dump(res, open(os.path.join(seed, "result-%s.json" % label), "w"), indent=1)
print("%s %s exit=%d %s" % (name, label, rc, "DETECTED" if (rc == 1 and viol) else ("inconclusive" if rc == 2 else ("driver error" if rc == 1 else "missed"))))
for l in lines[-12:]:
    print("   ", l)
