#!/usr/bin/env python3
"""Regenerate section 5 of DESIGN.md (per-property harness lists) from plan.py / plan_claims.py."""
import json, sys
sys.path.insert(0, '/verif')
import plan, plan_claims as PC
p = '/verif/DESIGN.md'
s = open(p).read()
a = s.index('## 5. Per property (as built)')
b = s.index('## 6. Not applicable')
head = s[a:s.index('### C01', a)]
titles = {}
for l in open('/verif/properties.jsonl'):
    d = json.loads(l)
    titles[d['id']] = d['title']
body = ''
for pid in ['C%02d' % i for i in range(1, 21)]:
    q = plan.harnesses_for(pid, 'quick')
    t = [h for h in plan.harnesses_for(pid, 'thorough') if h not in q]
    if not q:
        continue
    body += '### %s — %s\n' % (pid, titles[pid])
    body += '*Decided as:* %s\n\n' % PC.DECIDED.get(pid, '')
    body += '*Harnesses:* ' + ', '.join('`%s`' % h.name for h in q)
    if t:
        body += ', ' + ', '.join('*`%s`*' % h.name for h in t)
    body += '.\n\n*Outside the claim:* ' + '; '.join(PC.OUTSIDE.get(pid, [])) + '.\n\n'
open(p, 'w').write(s[:a] + head + body + s[b:])
print("section 5 regenerated")
