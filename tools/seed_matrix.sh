#!/bin/bash
# Re-run every kept seeded change against the harness(es) most relevant to it (3 at a time).
cd /verif
rm -f seeded/*/result-*.json
run() { python3 tools/run_seeded.py "$@" >> /tmp/seed_matrix.log 2>&1; }
jobs_wait() { while [ "$(jobs -r | wc -l)" -ge 3 ]; do sleep 5; done; }
while read name harnesses; do
  [ -z "$name" ] && continue
  jobs_wait
  run $name --dev $harnesses &
  sleep 25
done <<'LIST'
C01-1 k_decimal_try_add_digit
C01-2 e_owned_load_then_parse
C01-3 u_error_classify
C01-4 k_parse_exponent_n8
C01-5 m_depth_enum
C02-1 b_skip_number_w30
C02-2 s_float_fast_bounds
C02-3 b_skip_number_w30
C02-4 k_is_whitespace
C02-5 k_string_block
C03-1 k_unicode_inplace
C03-2 m_number_visit_raw_n7
C03-3 m_number_visit_raw_n7
C03-4 k_meta_roundtrip_idx_lt_2p29
C03-5 k_number_classification
C05-1 u_format_string_n3
C05-2 w_buffered_writer_short_writes
C05-3 k_string_tables
C05-4 w_buffered_writer_short_writes
C05-5 u_map_key_char_goes_through_escaper
C07-1 u_parse_number_int_len20
C07-2 k_decimal_round_6
C07-3 s_float_fast_sampled
C07-4 s_float_fast_bounds
C07-5 k_decimal_round_6
C08-1 s_float_fast_bounds
C08-2 b_skip_number_w30
C08-3 u_int_widths_reach_itoa
C08-4 u_skip_number_n5
C08-5 s_float_fast_bounds
C09-1 k_unicode_copying
C09-2 k_string_block
C09-3 k_string_block
C09-4 k_unicode_inplace
C09-5 b_skip_string_unchecked_w27
C10-1 b_skip_string_unchecked_w27
C10-2 b_skip_number_w30
C10-3 k_block_step_head_arr
C10-4 b_skip_string_unchecked_w27
C10-5 u_skip_string_unchecked_n8
C12-1 b_skip_string_unchecked_w27
C12-2 u_skip_string_n8
C12-3 m_array_iter_latch m_object_iter_latch
C12-4 m_entry_lazy_n7
C12-5 b_skip_string_unchecked_w27
C13-1 u_owned_mut_probe_keeps_raw
C13-2 b_skip_string_unchecked_tail_w27
C13-3 u_skip_string_n8
C13-4 u_owned_get_mut_probe_keeps_raw
C13-5 e_lazy_parse_from
C14-1 b_skip_number_w30
C14-2 u_skip_string_n8
C14-3 m_get_array_checked_n6
C14-4 m_entry_lazy_n7
C14-5 b_skip_number_w30
C17-1 k_simd_i8x32
C17-2 x_arch_nonspace_native
C17-3 x_native_u8x32
C17-4 x_arch_nonspace_fallback
C17-5 s_simd_str2int
C18-1 e_lazy_parse_from_frees
C18-2 e_owned_load1
C18-3 e_lazy_parse_from
C18-4 e_owned_load_then_parse
C18-5 e_owned_load1
C20-1 u_error_syntax_n6
C20-2 m_object_iter_latch
C20-3 k_position_from_index_n8
C20-4 m_stream_latch_any_outcome
C20-5 u_error_classify
revert-F1a m_depth_seq
revert-F1b m_skip_one_dispatch_n7
revert-F2 u_skip_string_n8
revert-F3 w_io_bufwriter_order
revert-F4 e_lazy_parse_from_frees e_owned_load1
revert-F5 k_unicode_copying
revert-F7 u_owned_from_lazy_types
revert-F8 u_owned_new_types
revert-F9 u_parse_number_int_len1_12
revert-F10 m_get_object_checked_n6
revert-F11 m_skip_one_dispatch_n7
revert-F12 u_owned_clone_loaded_keeps_raw
revert-F13 u_root_value_padding_overrun
revert-F14 u_skip_number_unchecked_span_n7
C05-6 u_write_string_fast_n2
C12-6 m_skip_array_n6
C13-6 u_owned_from_lazy_after_as_str
C20-6 u_error_classify
revert-F15 u_read_from_faststr_outlives_reader
LIST
wait
python3 tools/seeded_table.py
