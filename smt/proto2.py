import re, sys, time
from z3 import *
src = open('/repo/sonic-number/src/table.rs').read()
tab = [(int(a,16), int(b,16)) for a,b in re.findall(r'\(0x([0-9a-f]+), 0x([0-9a-f]+)\)', src)]
W = 2**64
def check(e, timeout=20000):
    sig2, sig2_ext = tab[e+342]
    s = Solver(); s.set('timeout', timeout)
    sig1 = Int('sig1'); s.add(sig1 >= 2**63, sig1 < W)
    hi = Int('hi'); lo = Int('lo'); s.add(sig1*sig2 == hi*W+lo, lo>=0, lo<W, hi>=0)
    hq = Int('hq'); bits = Int('bits'); s.add(hi == 512*hq+bits, Or(bits==0, bits==511))
    hi2 = Int('hi2'); r2 = Int('r2'); s.add(sig1*sig2_ext == hi2*W + r2, r2>=0, r2<W, hi2>=0)
    c = Int('c'); s.add(lo+hi2 == c*W + W-1, c>=0, c<=1)
    t0=time.time(); r = s.check(); dt=time.time()-t0
    return r, dt, (s.model()[sig1] if r==sat else None)
for e in [int(x) for x in sys.argv[1:]]:
    print(e, *check(e))
