#!/usr/bin/env python3
"""Decides, with an SMT solver over the MIR of /repo's current sonic-number, that the table-driven
float construction (`parse_float` -> `parse_floating_normal_fast`, and whatever other integer-only
constructor is listed in INTERPRET) returns the correctly rounded, finite double.

For every decimal exponent e in the stated range (concrete per query) and *every* 64-bit
significand 1 <= w < 10^19, sign and `trunc` flag (symbolic), each path of `parse_float` that
returns `Float(from_u64_bits(raw))` with `raw` computed by interpreted integer code satisfies
    raw = bits of RN_even(w * 10^e),  1 <= exponent field <= 2046,  sign as requested.
Paths whose result comes from a callee that is not interpreted are outside the claim and counted.
"""
import sys, os, re, json, time, subprocess, multiprocessing, tempfile, shutil, random, struct
from fractions import Fraction
sys.path.insert(0, os.path.dirname(os.path.abspath(__file__)))
from mir2smt import *

Z3 = os.environ.get("VERIF_Z3", "z3-new")
INTERPRET = ["parse_float", "parse_floating_normal_fast", "full_multiplication", "parse_float_fast"]

CVC5 = os.environ.get("VERIF_CVC5", "cvc5")
STATS = {"cvc5": 0, "z3": 0, "disagree": []}

def _parse(out, nlines):
    lines = out.strip().split("\n")
    r = lines[0].strip() if lines and lines[0].strip() else "error:empty"
    if r == "timeout" or r.startswith("cvc5 interrupted"):
        r = "unknown"
    errs = [l for l in lines if l.startswith("(error") and "model is not available" not in l and "cannot get value" not in l.lower() and "get-value" not in l]
    vals = {}
    if r not in ("sat", "unsat", "unknown") or errs:
        return "error:" + out[:200], vals
    if r == "sat":
        for name, val in re.findall(r"\(([A-Za-z_][\w.]*) (\(- \d+\)|\d+|true|false)\)", out):
            vals[name] = val == "true" if val in ("true", "false") else (-int(val[3:-1]) if val.startswith("(") else int(val))
    return r, vals

def run_z3(txt, tmo):
    try:
        p = subprocess.run([Z3, "-in", "-t:%d" % tmo, "-T:%d" % (tmo // 1000 + 2)], input=txt, capture_output=True, text=True, timeout=tmo / 1000 + 10)
        return _parse(p.stdout, txt.count("\n"))
    except subprocess.TimeoutExpired:
        return "unknown", {}

def run_cvc5(txt, tmo):
    try:
        p = subprocess.run([CVC5, "--lang", "smt2", "--produce-models", "--tlimit=%d" % tmo], input="(set-logic QF_LIA)\n" + txt, capture_output=True, text=True, timeout=tmo / 1000 + 10)
        return _parse(p.stdout if p.stdout.strip() else p.stderr, txt.count("\n"))
    except subprocess.TimeoutExpired:
        return "unknown", {}

class Solver:
    """One solver process per query, script on stdin.  (A persistent `z3 -in` session with
    push/pop was tried first: z3's incremental mode skips the preprocessing these queries need
    and was 50-100x slower.)  z3 is asked first with a short budget, cvc5 (QF_LIA) when z3 does not decide, z3 again with
    the full budget after that; in `both` mode both are asked on every query,
    where a disagreement between the two is reported as an error, never as a verdict."""
    def __init__(self, timeout_ms, both=False):
        self.tmo, self.both = timeout_ms, both
        self.n, self.time = 0, 0.0
    def query(self, script, getvals=()):
        t0 = time.time()
        txt = script + "\n(check-sat)\n"
        if getvals:
            txt += "(get-value (%s))\n" % " ".join(getvals)
        # z3 briefly, then cvc5, then z3 with the full budget: each is much faster than the other
        # on part of these queries (measured: 0.07 s vs 80 s in both directions)
        short = min(self.tmo, 3000)
        r, vals = run_z3(txt, short)
        STATS["z3"] += 1
        if r not in ("sat", "unsat") or self.both:
            r2, vals2 = run_cvc5(txt, self.tmo)
            STATS["cvc5"] += 1
            if r in ("sat", "unsat") and r2 in ("sat", "unsat") and r != r2:
                r = "error:solvers disagree z3=%s cvc5=%s" % (r, r2)
            elif r not in ("sat", "unsat"):
                r, vals = r2, vals2
        if r not in ("sat", "unsat") and not r.startswith("error:solvers") and self.tmo > short:
            r, vals = run_z3(txt, self.tmo)
            STATS["z3"] += 1
        self.n += 1
        self.time += time.time() - t0
        return r, vals
    def close(self):
        pass

def parse_allocs(text):
    """static tables from the compiler's allocation dumps: {type string: [elements]}"""
    out = {}
    for m in re.finditer(r"^alloc\d+ \(static: (\w+), size: (\d+), align: \d+\) \{\n((?:    0x.*\n)+)\}", text, re.M):
        name, size, body = m.group(1), int(m.group(2)), m.group(3)
        data = bytearray()
        for ln in body.split("\n"):
            mm = re.match(r"^\s+0x[0-9a-f]+ │ ((?:[0-9a-f_]{2} ?)+)│", ln)
            if mm:
                toks = mm.group(1).split()
                if any("_" in t for t in toks):
                    data = None
                    break
                data += bytes(int(t, 16) for t in toks)
        if data is None or len(data) != size:
            continue
        out[name] = bytes(data)
    return out

def statics_from(text, allocs):
    st = {}
    for m in re.finditer(r"^(?:pub )?static (\w+): (\[.*?\]) = \{$", text, re.M):
        name, ty = m.group(1), m.group(2)
        if name not in allocs:
            continue
        d = allocs[name]
        if re.match(r"^\[\(u64, u64\); \d+\]$", ty):
            st[ty] = [(int.from_bytes(d[i:i + 8], "little"), int.from_bytes(d[i + 8:i + 16], "little")) for i in range(0, len(d), 16)]
        elif re.match(r"^\[u64; \d+\]$", ty):
            st[ty] = [int.from_bytes(d[i:i + 8], "little") for i in range(0, len(d), 8)]
    return st

def dump_mir(repo, scratch):
    dst = os.path.join(scratch, "sonic-number")
    if os.path.exists(dst):
        shutil.rmtree(dst)
    shutil.copytree(os.path.join(repo, "sonic-number"), dst, ignore=shutil.ignore_patterns("target"))
    with open(os.path.join(dst, "Cargo.toml"), "a") as f:
        f.write("\n[workspace]\n")
    env = dict(os.environ, CARGO_NET_OFFLINE="true", RUSTUP_TOOLCHAIN="nightly")
    env.pop("RUSTFLAGS", None)
    r = subprocess.run(["cargo", "rustc", "--offline", "--lib", "--target-dir", os.path.join(scratch, "target-mir"), "--",
                        "-Zunpretty=mir", "-C", "debug-assertions=off", "-C", "overflow-checks=on"],
                       cwd=dst, env=env, capture_output=True, text=True)
    if r.returncode != 0 or "fn parse_float" not in r.stdout:
        raise RuntimeError("MIR dump failed:\n" + r.stderr[-2000:])
    return r.stdout

# ----------------------------------------------------------------------------- the property
def floor_log2_frac(num, den):
    """floor(log2(num/den)) for positive integers"""
    k = num.bit_length() - den.bit_length()
    # 2^k <= num/den ?
    while (num >> k if k >= 0 else num << -k) < den:
        k -= 1
    while (num >> (k + 1) if k + 1 >= 0 else num << -(k + 1)) >= den:
        k += 1
    # careful with truncation of >>: recheck exactly
    def ge(kk):   # num/den >= 2^kk
        return num >= den << kk if kk >= 0 else (num << -kk) >= den
    while not ge(k):
        k -= 1
    while ge(k + 1):
        k += 1
    return k

def rounding_spec(ctx, raw, w, e, upper_only=False):
    """smt bool: raw is the IEEE-754 double nearest (ties to even) to w * 10^e, finite and normal.
    upper_only: only `w * 10^e <= upper rounding boundary of raw` (non-strict): together with the full statement for a
    smaller w0 it says that every value in [w0 * 10^e, w * 10^e) rounds to raw."""
    n, lz = normalise(ctx, w, 64)
    X, M = divmod_pow2(ctx, raw, 52)
    m = add(M, 1 << 52)
    D = add(sub(X, 1075), lz)                    # f * 2^lz = m * 2^D
    num, den = (2 ** 63 * 10 ** e, 1) if e >= 0 else (2 ** 63, 10 ** (-e))
    d0 = floor_log2_frac(num, den) - 52
    alts = []
    for d in range(d0 - 1, d0 + 3):
        # V = n * 5^e * 2^e ; compare with (2m+-1) * 2^(d-1) and, below a power of two, (4m-1) * 2^(d-2)
        c5n, c5d = (5 ** e, 1) if e >= 0 else (1, 5 ** (-e))
        s = min(e, d - 2)
        V = mul(c5n * (1 << (e - s)), n)
        up = mul(c5d * (1 << (d - 1 - s)), add(mul(2, m), 1))
        dn1 = mul(c5d * (1 << (d - 1 - s)), sub(mul(2, m), 1))
        dn2 = mul(c5d * (1 << (d - 2 - s)), sub(mul(4, m), 1))
        even = "(= (mod %s 2) 0)" % sx(M)
        upper = "(or (< {V} {u}) (and (= {V} {u}) {ev}))".format(V=sx(V), u=sx(up), ev=even)
        lower_n = "(or (> {V} {l}) (and (= {V} {l}) {ev}))".format(V=sx(V), l=sx(dn1), ev=even)
        lower_p = "(>= {V} {l})".format(V=sx(V), l=sx(dn2))
        lower = "(ite (and (= %s 0) (> %s 1)) %s %s)" % (sx(M), sx(X), lower_p, lower_n)
        if upper_only:
            alts.append("(and (= %s %s) (<= %s %s))" % (sx(D), smt_int(d), sx(V), sx(up)))
        else:
            alts.append("(and (= %s %s) %s %s)" % (sx(D), smt_int(d), upper, lower))
    return "(and (>= {X} 1) (<= {X} 2046) (or {alts}))".format(X=sx(X), alts=" ".join(alts))

def exact_bits(w, e):
    """bits of the double nearest to w * 10^e (Python's int/Fraction -> float conversions round correctly)"""
    try:
        x = float(Fraction(w) * Fraction(10) ** e)
    except OverflowError:
        return None
    if x == float("inf"):
        return None
    return struct.unpack("<Q", struct.pack("<d", x))[0]

def rounding_spec_abs(ctx, raw, w, e, wlo, whi):
    """the same statement without the normalised significand, for tiny values: candidates for the
    exponent field come from the range of w (here a few values, incl. 0 = subnormal / zero)"""
    from fractions import Fraction
    X, M = divmod_pow2(ctx, raw, 52)
    def xfield(v):          # exponent field of the double just below/at v (0 for subnormals)
        if v < Fraction(1, 2 ** 1022):
            return 0
        k = floor_log2_frac(v.numerator, v.denominator)
        return k + 1023
    x_lo = xfield(Fraction(wlo) * Fraction(10) ** e)
    x_hi = xfield(Fraction(whi) * Fraction(10) ** e) + 1
    alts = []
    p10 = 10 ** (-e)
    for x in range(max(0, x_lo - 1), x_hi + 1):
        # f = m * 2^d with (m, d) = (M, -1074) for x == 0 and (2^52 + M, x - 1075) otherwise; compare with w / 10^|e|
        m = M if x == 0 else add(M, 1 << 52)
        d = -1074 if x == 0 else x - 1075
        # (2m-1) * 2^(d-1) <= w / p10 <= (2m+1) * 2^(d-1)   <=>   (2m-1) * p10 <= w * 2^(1-d) <= (2m+1) * p10      (d <= 0 here)
        V = mul(1 << (1 - d), w)
        up = mul(p10, add(mul(2, m), 1))
        dn1 = mul(p10, sub(mul(2, m), 1))
        dn2 = mul(p10, sub(mul(4, m), 1))       # below a power of two the gap is half: compare 2V with (4m-1) p10
        even = "(= (mod %s 2) 0)" % sx(M)
        upper = "(or (< {V} {u}) (and (= {V} {u}) {ev}))".format(V=sx(V), u=sx(up), ev=even)
        lower_n = "(or (> {V} {l}) (and (= {V} {l}) {ev}))".format(V=sx(V), l=sx(dn1), ev=even)
        lower_p = "(>= (* 2 {V}) {l})".format(V=sx(V), l=sx(dn2))
        lower = "(ite (and (= %s 0) %s) %s %s)" % (sx(M), "true" if x > 1 else "false", lower_p, lower_n)
        alts.append("(and (= %s %d) %s %s)" % (sx(X), x, upper, lower))
    return "(and (<= %s 2046) (or %s))" % (sx(X), " ".join(alts))

def unwrap_float(v):
    """Ok(Float(F)) -> (neg?, raw) | 'opaque' | None"""
    if isinstance(v, Adt) and v.ty == "Result" and v.variant == "Ok":
        pn = v.fields[0]
        if isinstance(pn, Adt) and pn.variant == "Float":
            f, neg = pn.fields[0], False
            while isinstance(f, F64) and f.kind == "neg":
                f, neg = f.arg, not neg
            if isinstance(f, F64) and f.kind == "bits":
                return (neg, f.arg)
            if isinstance(f, F64) and f.kind in ("rn", "q"):
                return ("rat", neg, f.arg[0], f.arg[1])
            return "opaque"
        return None
    if isinstance(v, Adt) and v.ty == "Result" and v.variant == "Err":
        return "err"
    return None

def canon(txt):
    names = {}
    def sub(m):
        return names.setdefault(m.group(0), "v%d" % len(names))
    return re.sub(r"\b[a-z]+_\d+\b", sub, txt)

def concretise(solver, c, w, neg, trunc, extra, e):
    """make a satisfying assignment concrete: pin lz (then n = w * 2^lz is linear) and ask again"""
    norms = [t for t in getattr(c, "norms", []) if isinstance(t[0], T) and t[0].s == w.s]
    if not norms:
        r, vals = solver.query(c.script(extra), [w.s, neg.s, trunc.s])
        return (vals if r == "sat" else None)
    x, lz, n, width = norms[0]
    quick = Solver(4000)
    t0 = time.time()
    r, vals = quick.query(c.script(extra), [lz.s])
    first = [vals[lz.s]] if r == "sat" and lz.s in vals else []
    for k in first + [k for k in range(0, 64) if k not in first]:
        if time.time() - t0 > 90:
            break
        pin = ["(= %s %d)" % (lz.s, k), "(= %s (* %d %s))" % (n.s, 1 << k, w.s)]
        r, vals = quick.query(c.script(list(extra) + pin), [w.s, neg.s, trunc.s])
        if r == "sat":
            return vals
    return None

def f64_impl_consts(text, consts):
    """associated consts of `impl RawFloat for f64`: the impl whose from_u64_bits returns f64"""
    m = re.search(r"^fn (float::<impl at [^>]+>)::from_u64_bits\(_1: u64\) -> f64 \{$", text, re.M)
    out = {}
    if not m:
        return out
    prefix = m.group(1) + "::"
    for k, v in consts.items():
        if k.startswith(prefix) and "::" not in k[len(prefix):]:
            out[k[len(prefix):]] = v
    for k, v in consts.items():           # provided (default) consts of the trait
        if k.startswith("RawFloat::") and k[len("RawFloat::"):] not in out:
            out[k[len("RawFloat::"):]] = v
    return out

LEMIRE = ["compute_float", "compute_product_approx", "power", "zero_pow2", "biased_fp_to_float"]

def check_exponents(job):
    mir_path, exps, tmo, oblig_tmo, interpret, both, lemire_range, neg_mode, trunc_mode = job
    text = open(mir_path).read()
    fns, consts = parse_mir(text)
    f64c = f64_impl_consts(text, consts)
    statics = statics_from(text, parse_allocs(text))
    solver = Solver(tmo, both)
    osolver = Solver(oblig_tmo)
    psolver = Solver(3000)
    import mir2smt as M
    def prover(ctx, cond):
        r, _ = psolver.query(ctx.script(["(not %s)" % cond]))
        return r == "unsat"
    M.PROVER = prover
    rnd = random.Random(int(os.environ.get("VERIF_SEED", "0") or 0) * 7919 + (exps[0] if exps else 0))
    res = {"validation": {"runs": 0, "reached_interpreted": 0, "mismatches": []}, "violations": [], "unknown": [], "errors": [], "decided_returns": 0, "opaque_returns": 0, "err_returns": 0, "paths": 0,
           "oblig_unsat": 0, "oblig_unknown": {}, "oblig_sat": [], "queries": 0, "solver_s": 0.0, "fast_exps": [], "cache_hits": 0,
           "opaque_calls": set(), "interpreted": set(), "unsupported": [], "unrealisable": [], "unsupported_paths": {}}
    TINY = -308          # below this the result can be subnormal: the significand range is split by leading_zeros
    work = []
    for e in exps:
        if trunc_mode and e <= TINY:
            continue          # truncated significands are decided for exponents >= -307 only
        if lemire_range is not None and e <= TINY and e >= lemire_range[0]:
            for k in range(0, 64):
                wlo, whi = max(1, 1 << (63 - k)), min(10 ** 19 - 1, (1 << (64 - k)) - 1)
                if wlo <= whi:
                    work.append((e, k, wlo, whi))
        else:
            work.append((e, None, (10 ** 16 if trunc_mode else 1), 10 ** 19 - 1))
    for e, pin_k, wlo, whi in work:
        if len(res["violations"]) >= 3 or any(v["exp10"] == e for v in res["violations"]):
            continue        # enough counterexamples to replay; satisfiable queries are the slow ones
        use_lemire = lemire_range is not None and lemire_range[0] <= e <= lemire_range[1]
        ip = Interp(fns, consts, statics, interpret + (LEMIRE if use_lemire else []))
        ip.impl_consts = f64c
        ip.tolerate_unsupported = True
        ctx = Ctx()
        w = ctx.fresh("w", wlo, whi)
        if pin_k is not None:
            ctx.pin_lz = (w.s, pin_k, 64)
        neg = ctx.fresh("neg", None, None, "Bool")
        trunc = ctx.fresh("trunc", None, None, "Bool")
        # default: significands with no digit dropped.  --trunc: digits were dropped (then the scanner has kept >= 17
        # digits, w >= 10^16, and the exact value lies in [w, w+1) * 10^e: the result must be the rounding of both ends)
        ctx.cons.append(trunc.s if trunc_mode else "(not %s)" % trunc.s)
        ctx.base = len(ctx.cons)
        f = ip.find_fn("parse_float")
        try:
            if neg_mode == "false":
                ctx.cons.append("(not %s)" % neg.s)      # sign handling is decided by the runs with a symbolic sign
            outs = list(ip.run_fn(f, [w, e, (False if neg_mode == "false" else neg), bool(trunc_mode), Opq("raw_num")], ctx))
        except (Unsupported, PathLimit) as ex:
            res["unsupported"].append((e, str(ex)))
            continue
        res["paths"] += len(outs)
        had_fast = False
        proved = set()
        for c, rv in outs:
            if any(v["exp10"] == e for v in res["violations"]):
                break
            u = unwrap_float(rv)
            if u == "opaque":
                res["opaque_returns"] += 1
            elif u == "err":
                res["err_returns"] += 1
                if c.cache.get(("isinf_decided",)):
                    # rejected as non-finite by interpreted code: only right if the exact value rounds to infinity
                    thr = 2 ** 1024 - 2 ** 970
                    nm = [t for t in getattr(c, "norms", []) if isinstance(t[0], T) and t[0].s == w.s]
                    if e >= 0 and nm:
                        # in terms of the normalised significand (exact: w = n / 2^lz), one linear disjunct per value of lz
                        _, lzt, nt, _ = nm[0]
                        finite = "(or %s)" % " ".join("(and (= %s %d) (< (* %d %s) %d))" % (lzt.s, k, 10 ** e, nt.s, thr << k) for k in range(64))
                    else:
                        finite = "(< (* %d %s) %d)" % (10 ** e, w.s, thr) if e >= 0 else "(< %s %d)" % (w.s, thr * 10 ** (-e))
                    r, _ = solver.query(c.script([finite]))
                    res["decided_returns"] += 1
                    if r == "sat":
                        vals = concretise(solver, c, w, neg, trunc, [finite], e)
                        (res["violations"] if vals else res["unrealisable"]).append({"exp10": e, "w": (vals or {}).get(w.s), "neg": (vals or {}).get(neg.s), "kind": "rejected as infinite although the nearest double is finite", "trace": c.trace})
                    elif r == "unknown":
                        res["unknown"].append((e, "finite-rejected"))
                    elif r != "unsat":
                        res["errors"].append((e, r))
            elif u is None:
                res["unsupported"].append((e, "return shape %r" % (rv,)))
            elif u[0] == "rat":
                # one IEEE operation on exact operands: the result is RN(num/den); it is the right double iff num/den == w * 10^e
                had_fast = True
                _, isneg, num, den = u
                res["decided_returns"] += 1
                lhs = num if e <= 0 else num
                eq = "(= %s %s)" % (sx(mul(num, 10 ** (-e)) if e < 0 else num), sx(mul(w, den * (10 ** e if e >= 0 else 1))))
                bad = "(not (and %s (= %s %s)))" % (eq, neg.s, "true" if isneg else "false")
                r, _ = solver.query(c.script([bad]))
                if r == "sat":
                    vals = concretise(solver, c, w, neg, trunc, [bad], e)
                    (res["violations"] if vals else res["unrealisable"]).append({"exp10": e, "w": (vals or {}).get(w.s), "neg": (vals or {}).get(neg.s), "kind": "one-operation float path computes another value", "trace": c.trace})
                elif r == "unknown":
                    res["unknown"].append((e, "clinger"))
                elif r != "unsat":
                    res["errors"].append((e, r))
            else:
                had_fast = True
                isneg, raw = u
                res["decided_returns"] += 1
                # the sign: on this path `neg` has one value; it must be the sign applied
                sign_bad = "(not (= %s %s))" % (neg.s, "true" if isneg else "false")
                r, _ = osolver.query(c.script([sign_bad]))
                if r == "sat":
                    vals = concretise(solver, c, w, neg, trunc, [sign_bad], e)
                    (res["violations"] if vals else res["unrealisable"]).append({"exp10": e, "w": (vals or {}).get(w.s), "neg": (vals or {}).get(neg.s), "kind": "sign", "trace": c.trace})
                elif r != "unsat":
                    res["unknown"].append((e, "sign " + r[:60]))
                # the magnitude: first under the callee's constraints only (shared by all the
                # routes that reach the callee), then, if that is not unsat, under the whole path
                c2 = c.fork()
                if trunc_mode:
                    spec = "(not (and %s %s))" % (rounding_spec(c2, raw, w, e), rounding_spec(c2, raw, add(w, 1), e, upper_only=True))
                else:
                    spec = "(not %s)" % (rounding_spec(c2, raw, w, e) if pin_k is None else rounding_spec_abs(c2, raw, w, e, wlo, whi))
                verdict = None
                if c2.mark is not None:
                    key = canon(c2.script([spec], only_callee=True))
                    if key in proved:
                        res["cache_hits"] += 1
                        verdict = "unsat"
                    else:
                        r, _ = solver.query(c2.script([spec], only_callee=True))
                        if r == "unsat":
                            proved.add(key)
                            verdict = "unsat"
                if verdict is None:
                    r, vals = solver.query(c2.script([spec]), [w.s, neg.s, trunc.s])
                    verdict = r
                    if r == "sat":
                        vals = concretise(solver, c2, w, neg, trunc, [spec], e) if not any(v["exp10"] == e for v in res["violations"]) else None
                        (res["violations"] if vals else res["unrealisable"]).append({"exp10": e, "w": (vals or {}).get(w.s), "neg": (vals or {}).get(neg.s), "kind": "rounding", "trunc": bool(trunc_mode), "trace": c.trace})
                    elif r == "unknown":
                        res["unknown"].append((e, "rounding"))
                    elif r != "unsat":
                        res["errors"].append((e, r))
        if had_fast and e not in res["fast_exps"]:
            res["fast_exps"].append(e)
        # translator validation: run the same MIR concretely and compare with exact rational rounding
        samples = ([1, 2 ** 53 + 1, 2 ** 63, 10 ** 19 - 1] + [rnd.randrange(1, 10 ** 19) for _ in range(4)] + [rnd.randrange(1, 10 ** rnd.randrange(1, 19)) for _ in range(2)]
                   if pin_k is None else [wlo, whi, rnd.randrange(wlo, whi + 1)])
        for wv in samples:
            ipc = Interp(fns, consts, statics, interpret + (LEMIRE if use_lemire else []))
            ipc.impl_consts = f64c
            try:
                couts = list(ipc.run_fn(f, [wv, e, False, False, Opq("raw_num")], Ctx()))
            except Unsupported as ex:
                res["unsupported"].append((e, "concrete run: " + str(ex)))
                break
            res["validation"]["runs"] += 1
            for _, rv in couts:
                u = unwrap_float(rv)
                if isinstance(u, tuple) and u[0] == "rat" and isinstance(u[2], int):
                    # the model says: the double nearest to num/den
                    got = struct.unpack("<Q", struct.pack("<d", float(Fraction(u[2], u[3]))))[0]
                    u = (u[1], got)
                if isinstance(u, tuple) and u[0] != "rat" and isinstance(u[1], int):
                    res["validation"]["reached_interpreted"] += 1
                    want = exact_bits(wv, e)
                    if u[1] != want or u[0]:
                        res["validation"]["mismatches"].append({"exp10": e, "w": wv, "neg": False, "kind": "concrete run of the MIR: bits %#x, exact rounding %s" % (u[1], "%#x" % want if want is not None else "not finite")})
        seen_ob = set()
        for ob in ip.obligations:
            cond = "true" if ob.cond is False else "(not %s)" % bsx(ob.cond)
            key = "%s:%s %s" % (ob.fn, ob.bb, ob.msg)
            ck = canon(ob.ctx.script([cond], only_callee=True)) if ob.ctx.mark is not None else None
            if ck is not None and ck in seen_ob:
                continue
            r, vals = osolver.query(ob.ctx.script([cond], only_callee=ob.ctx.mark is not None))
            if r != "unsat" and ob.ctx.mark is not None:
                r, vals = osolver.query(ob.ctx.script([cond]))
            if r == "unsat":
                res["oblig_unsat"] += 1
                if ck is not None:
                    seen_ob.add(ck)
            elif r == "sat":
                vals = concretise(osolver, ob.ctx, w, neg, trunc, [cond], e)
                (res["oblig_sat"] if vals else res["unrealisable"]).append({"exp10": e, "w": (vals or {}).get(w.s), "neg": (vals or {}).get(neg.s), "kind": "panic: " + key})
            elif r == "unknown":
                res["oblig_unknown"][key] = res["oblig_unknown"].get(key, 0) + 1
                if ck is not None:
                    seen_ob.add(ck)
            else:
                res["errors"].append((e, r))
        for sctx, cond in ip.inexact:
            vals = concretise(solver, sctx, w, neg, trunc, [cond], e)
            if vals:
                res["violations"].append({"exp10": e, "w": vals.get(w.s), "neg": vals.get(neg.s), "kind": "float operation on an operand that need not be exact (candidate; the native replay decides)"})
            else:
                res["unknown"].append((e, "inexact float operation, no witness"))
        for u in ip.unsupported_paths:
            res["unsupported_paths"][u] = res["unsupported_paths"].get(u, 0) + 1
        res["opaque_calls"] |= ip.opaque_calls
        res["interpreted"] |= ip.interpreted_calls
    res["queries"] = solver.n + osolver.n + psolver.n
    res["solver_s"] = solver.time + osolver.time + psolver.time
    res["opaque_calls"] = sorted(res["opaque_calls"]); res["interpreted"] = sorted(res["interpreted"])
    res["solver_calls"] = dict(STATS)
    return res

def main():
    import argparse
    ap = argparse.ArgumentParser()
    ap.add_argument("--repo", default="/repo")
    ap.add_argument("--scratch", required=True)
    ap.add_argument("--emin", type=int, default=-345)
    ap.add_argument("--emax", type=int, default=345)
    ap.add_argument("--timeout-ms", type=int, default=20000)
    ap.add_argument("--oblig-timeout-ms", type=int, default=500)
    ap.add_argument("--jobs", type=int, default=12)
    ap.add_argument("--interpret", default=",".join(INTERPRET))
    ap.add_argument("--out", required=True)
    ap.add_argument("--lemire", default="", help="lo..hi: also interpret the Eisel-Lemire constructor for exponents in this range")
    ap.add_argument("--neg", default="sym", choices=["sym", "false"], help="sign flag symbolic (default) or fixed to false")
    ap.add_argument("--trunc", action="store_true", help="the trunc flag is true: w >= 10^16 is a truncated significand, the result must be the rounding of w*10^e and of (w+1)*10^e")
    ap.add_argument("--skip", default="", help="comma separated exponents to leave out (stated in the harness bound)")
    ap.add_argument("--both", action="store_true", help="ask both solvers on every rounding query and compare")
    ap.add_argument("--exps", default="", help="comma separated list instead of emin..emax")
    a = ap.parse_args()
    t0 = time.time()
    os.makedirs(a.scratch, exist_ok=True)
    mir = dump_mir(a.repo, a.scratch)
    mir_path = os.path.join(a.scratch, "sonic-number.mir")
    open(mir_path, "w").write(mir)
    exps = [int(x) for x in a.exps.split(',')] if a.exps else list(range(a.emin, a.emax + 1))
    if a.skip:
        exps = [e for e in exps if e not in [int(x) for x in a.skip.split(',')]]
    chunks = [exps[i::a.jobs] for i in range(a.jobs)]
    interpret = a.interpret.split(",")
    lem = [int(x) for x in a.lemire.split("..")] if a.lemire else None
    with multiprocessing.Pool(a.jobs) as pool:
        parts = pool.map(check_exponents, [(mir_path, c, a.timeout_ms, a.oblig_timeout_ms, interpret, a.both, lem, a.neg, a.trunc) for c in chunks if c])
    tot = {"violations": [], "unknown": [], "errors": [], "unsupported": [], "oblig_sat": [], "oblig_unknown": {},
           "opaque_calls": set(), "interpreted": set()}
    for k in ("decided_returns", "opaque_returns", "err_returns", "paths", "oblig_unsat", "queries", "solver_s", "cache_hits"):
        tot[k] = sum(p[k] for p in parts)
    tot["fast_exps"] = sorted(sum((p["fast_exps"] for p in parts), []))
    tot["unrealisable"] = sum((p["unrealisable"] for p in parts), [])
    tot["validation"] = {"runs": sum(p["validation"]["runs"] for p in parts), "reached_interpreted": sum(p["validation"]["reached_interpreted"] for p in parts),
                         "mismatches": sum((p["validation"]["mismatches"] for p in parts), [])}
    tot["unsupported_paths"] = {}
    for p in parts:
        for k, v in p["unsupported_paths"].items():
            tot["unsupported_paths"][k] = tot["unsupported_paths"].get(k, 0) + v
    tot["n_fast_exps"] = len(tot["fast_exps"])
    tot["fast_exps_range"] = [tot["fast_exps"][0], tot["fast_exps"][-1]] if tot["fast_exps"] else None
    tot["solver_calls"] = {k: sum(p["solver_calls"][k] for p in parts) for k in ("z3", "cvc5")}
    for p in parts:
        for k in ("violations", "unknown", "errors", "unsupported", "oblig_sat"):
            tot[k] += p[k]
        for k, v in p["oblig_unknown"].items():
            tot["oblig_unknown"][k] = tot["oblig_unknown"].get(k, 0) + v
        tot["opaque_calls"] |= set(p["opaque_calls"]); tot["interpreted"] |= set(p["interpreted"])
    tot["opaque_calls"] = sorted(tot["opaque_calls"]); tot["interpreted"] = sorted(tot["interpreted"])
    tot["exponents"] = {"count": len(exps), "min": min(exps), "max": max(exps), "list": exps if len(exps) <= 120 else "every integer in the range"}
    tot["wall_s"] = round(time.time() - t0, 1)
    tot["solver"] = subprocess.run([Z3, "--version"], capture_output=True, text=True).stdout.strip()
    json.dump(tot, open(a.out, "w"), indent=1, default=str)
    print("[smt] %d exponents in %d..%d: %d paths, %d returns decided (%d exponents reach an interpreted constructor), %d opaque, %d obligations unsat, %d unknown kinds, %d queries, solver %.1fs, wall %.1fs"
          % (len(exps), min(exps), max(exps), tot["paths"], tot["decided_returns"], len(tot["fast_exps"]), tot["opaque_returns"], tot["oblig_unsat"], len(tot["oblig_unknown"]), tot["queries"], tot["solver_s"], tot["wall_s"]))
    for v in tot["violations"][:5] + tot["oblig_sat"][:5]:
        print("[smt] counterexample:", json.dumps(v))
    for k in ("unknown", "errors", "unsupported"):
        if tot[k]:
            print("[smt] %s: %s" % (k, tot[k][:5]))
    if tot["unsupported_paths"]:
        print("[smt] paths ended at an operator the translator does not model (not part of the claim):", tot["unsupported_paths"])

if __name__ == "__main__":
    main()
