//! Native replay of solver counterexamples for the float-construction checks: each argument is a
//! JSON number text; the real `sonic_rs::from_str::<f64>` is compared with Rust's correctly
//! rounded `str::parse::<f64>` (trusted only as the replay oracle; it decides nothing).
use std::panic;
fn main() {
    let mut bad = 0;
    for t in std::env::args().skip(1) {
        let want: f64 = t.parse().unwrap();
        let got = panic::catch_unwind(|| sonic_rs::from_str::<f64>(&t));
        match got {
            Err(_) => {
                println!("REPLAY text={} verdict=panic", t);
                bad += 1;
            }
            Ok(Ok(g)) => {
                let ok = g.to_bits() == want.to_bits() && g.is_finite();
                println!("REPLAY text={} got={:e} bits={:#x} want={:e} bits={:#x} verdict={}", t, g, g.to_bits(), want, want.to_bits(), if ok { "same" } else { "differs" });
                if !ok { bad += 1; }
            }
            Ok(Err(e)) => {
                let ok = !want.is_finite();
                println!("REPLAY text={} got=Err({}) want={:e} verdict={}", t, e, want, if ok { "same" } else { "differs" });
                if !ok { bad += 1; }
            }
        }
    }
    std::process::exit(if bad > 0 { 1 } else { 0 });
}
