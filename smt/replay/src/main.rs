//! Native replay of solver counterexamples for the float-construction checks: each argument is a
//! JSON number text; the real `sonic_rs::from_str::<f64>` is compared with Rust's correctly
//! rounded `str::parse::<f64>` (trusted only as the replay oracle; it decides nothing).
use std::panic;
fn main() {
    let mut bad = 0;
    for arg in std::env::args().skip(1) {
        // "pad:<literal>": the literal is followed by more input (first element of an array), which
        // is what selects the 16-byte fraction reader
        let (t, padded) = match arg.strip_prefix("pad:") {
            Some(r) => (r.to_string(), true),
            None => (arg.clone(), false),
        };
        let want: f64 = t.parse().unwrap();
        let got = panic::catch_unwind(|| {
            if padded {
                let doc = format!("[{},{}]", t, "1".repeat(24));
                sonic_rs::from_str::<Vec<f64>>(&doc).map(|v| v[0])
            } else {
                sonic_rs::from_str::<f64>(&t)
            }
        });
        match got {
            Err(_) => {
                println!("REPLAY text={} verdict=panic", t);
                bad += 1;
            }
            Ok(Ok(g)) => {
                let ok = g.to_bits() == want.to_bits() && g.is_finite();
                println!("REPLAY text={} got={:e} bits={:#x} want={:e} bits={:#x} verdict={}", t, g, g.to_bits(), want, want.to_bits(), if ok { "same" } else { "differs" });
                if !ok { bad += 1; }
            }
            Ok(Err(e)) => {
                let ok = !want.is_finite();
                println!("REPLAY text={} got=Err({}) want={:e} verdict={}", t, e, want, if ok { "same" } else { "differs" });
                if !ok { bad += 1; }
            }
        }
    }
    std::process::exit(if bad > 0 { 1 } else { 0 });
}
