#!/usr/bin/env python3
"""SMT check of the SSE digit reader `sonic_number::arch::x86_64::simd_str2int` from its MIR.

For every `need` in 1..=16, every position p in 1..=16 of the first non-digit among the 16 loaded
bytes (16 = none; p >= 1 is the callers' precondition: parse_number_fraction is entered on a digit),
every class of that non-digit byte (below '0', ':'..0xAF, 0xB0..0xFF: the three ranges on which
the two signed comparisons have a fixed outcome) and EVERY value of the digits before it and of the
bytes after it, the kernel returns (sum of the first min(need, p) digits in decimal, min(need, p)).
The control flow is concrete per (need, p, class); the digits stay symbolic, so each case is one
linear-integer query over up to 16 digit variables (+ the dev-profile arithmetic assertions).
"""
import sys, os, re, json, time, subprocess, multiprocessing, shutil, random
sys.path.insert(0, os.path.dirname(os.path.abspath(__file__)))
from mir2smt import *
import float_check as FC

FEATURES = "+avx2,+pclmulqdq,+sse4.1,+ssse3,+sse2"
CLASSES = [(0, 47), (58, 175), (176, 255)]

def dump_mir(repo, scratch):
    dst = os.path.join(scratch, "sonic-number")
    if os.path.exists(dst):
        shutil.rmtree(dst)
    shutil.copytree(os.path.join(repo, "sonic-number"), dst, ignore=shutil.ignore_patterns("target"))
    with open(os.path.join(dst, "Cargo.toml"), "a") as f:
        f.write("\n[workspace]\n")
    env = dict(os.environ, CARGO_NET_OFFLINE="true", RUSTUP_TOOLCHAIN="nightly")
    env.pop("RUSTFLAGS", None)
    r = subprocess.run(["cargo", "rustc", "--offline", "--lib", "--target-dir", os.path.join(scratch, "target-mir"), "--",
                        "-Zunpretty=mir", "-C", "debug-assertions=off", "-C", "overflow-checks=on", "-C", "target-feature=" + FEATURES],
                       cwd=dst, env=env, capture_output=True, text=True)
    if r.returncode != 0 or "x86_64::simd_str2int" not in r.stdout:
        raise RuntimeError("MIR dump failed (or the x86_64 backend was not selected):\n" + r.stderr[-2000:])
    return r.stdout

def run_case(fns, consts, need, p, cls, concrete=None):
    ip = Interp(fns, consts, {}, ["simd_str2int"])
    ctx = Ctx()
    data = []
    for i in range(16):
        if concrete is not None:
            data.append(concrete[i])
        elif i < p:
            data.append(ctx.fresh("d%d" % i, 48, 57))
        elif i == p:
            data.append(ctx.fresh("x%d" % i, CLASSES[cls][0], CLASSES[cls][1]))
        else:
            data.append(ctx.fresh("g%d" % i, 0, 255))
    ctx.base = len(ctx.cons)
    f = [v for k, v in fns.items() if k.endswith("x86_64::simd_str2int")][0]
    outs = list(ip.run_fn(f, [ByteSlice(data), need], ctx))
    return ip, data, outs

def check_cases(job):
    mir_path, cases, tmo = job
    text = open(mir_path).read()
    fns, consts = parse_mir(text)
    solver = FC.Solver(tmo)
    res = {"violations": [], "unknown": [], "errors": [], "unsupported": [], "decided_returns": 0, "oblig_unsat": 0, "oblig_sat": [],
           "oblig_unknown": {}, "paths": 0, "intrinsics": set(), "validation": {"runs": 0, "reached_interpreted": 0, "mismatches": []}}
    rnd = random.Random(int(os.environ.get("VERIF_SEED", "0") or 0) * 104729 + len(cases) + (cases[0][0] * 17 + cases[0][1] if cases else 0))
    for need, p, cls in cases:
        try:
            ip, data, outs = run_case(fns, consts, need, p, cls)
        except Unsupported as ex:
            res["unsupported"].append(((need, p, cls), str(ex)))
            continue
        res["intrinsics"] |= ip.intrinsics_used
        res["paths"] += len(outs)
        count = min(need, p)
        names = [d.s for d in data]
        def model_bytes(vals):
            return "".join("%02x" % vals.get(n, 48) for n in names)
        if len(outs) != 1:
            res["unsupported"].append(((need, p, cls), "%d paths where one is expected" % len(outs)))
            continue
        c, rv = outs[0]
        s, k = rv.items
        if k != count:
            # the number of digits consumed is concrete on this path: a wrong count is a violation for every assignment
            r, vals = solver.query(c.script([]), names)
            res["violations"].append({"need": need, "p": p, "kind": "count %r instead of %d" % (k, count), "bytes": model_bytes(vals) if r == "sat" else None})
            continue
        ref = 0
        for i in range(count):
            ref = add(ref, mul(10 ** (count - 1 - i), sub(data[i], 48)))
        res["decided_returns"] += 1
        r, vals = solver.query(c.script(["(not (= %s %s))" % (sx(s), sx(ref))]), names)
        if r == "sat":
            res["violations"].append({"need": need, "p": p, "kind": "sum differs from the decimal value of the digits", "bytes": model_bytes(vals)})
        elif r == "unknown":
            res["unknown"].append(((need, p, cls), "sum"))
        elif r != "unsat":
            res["errors"].append(((need, p, cls), r))
        for ob in ip.obligations:
            cond = "true" if ob.cond is False else "(not %s)" % bsx(ob.cond)
            r, vals = solver.query(ob.ctx.script([cond]), names)
            key = "%s:%s %s" % (ob.fn.split("::")[-1], ob.bb, ob.msg)
            if r == "unsat":
                res["oblig_unsat"] += 1
            elif r == "sat":
                res["oblig_sat"].append({"need": need, "p": p, "kind": "panic: " + key, "bytes": model_bytes(vals)})
            elif r == "unknown":
                res["oblig_unknown"][key] = res["oblig_unknown"].get(key, 0) + 1
            else:
                res["errors"].append(((need, p, cls), r))
        # translator validation: the same MIR and intrinsic models on concrete bytes against the scalar definition
        for _ in range(2):
            conc = [rnd.randrange(48, 58) if i < p else (rnd.randrange(CLASSES[cls][0], CLASSES[cls][1] + 1) if i == p else rnd.randrange(256)) for i in range(16)]
            try:
                _, _, couts = run_case(fns, consts, need, p, cls, concrete=conc)
            except Unsupported as ex:
                res["unsupported"].append(((need, p, cls), "concrete: " + str(ex)))
                break
            res["validation"]["runs"] += 1
            want, i = 0, 0
            while i < need and 48 <= conc[i] <= 57:
                want = want * 10 + conc[i] - 48
                i += 1
            got = couts[0][1].items if len(couts) == 1 else None
            if got is not None and isinstance(got[0], int):
                res["validation"]["reached_interpreted"] += 1
                if (got[0], got[1]) != (want, i):
                    res["validation"]["mismatches"].append({"need": need, "p": p, "kind": "concrete run of the MIR gives %r, scalar definition %r" % (tuple(got), (want, i)), "bytes": "".join("%02x" % b for b in conc)})
            else:
                res["unsupported"].append(((need, p, cls), "concrete run did not fold to integers"))
    res["queries"], res["solver_s"] = solver.n, solver.time
    res["intrinsics"] = sorted(res["intrinsics"])
    res["solver_calls"] = dict(FC.STATS)
    return res

def main():
    import argparse
    ap = argparse.ArgumentParser()
    ap.add_argument("--repo", default="/repo")
    ap.add_argument("--scratch", required=True)
    ap.add_argument("--out", required=True)
    ap.add_argument("--jobs", type=int, default=8)
    ap.add_argument("--timeout-ms", type=int, default=20000)
    ap.add_argument("--needs", default="1-16")
    a = ap.parse_args()
    t0 = time.time()
    os.makedirs(a.scratch, exist_ok=True)
    mir = dump_mir(a.repo, a.scratch)
    mir_path = os.path.join(a.scratch, "sonic-number-x86.mir")
    open(mir_path, "w").write(mir)
    lo, hi = [int(x) for x in a.needs.split("-")]
    cases = [(need, p, cls) for need in range(lo, hi + 1) for p in range(1, 17) for cls in (range(3) if p < 16 else [0])]
    chunks = [cases[i::a.jobs] for i in range(a.jobs)]
    with multiprocessing.Pool(a.jobs) as pool:
        parts = pool.map(check_cases, [(mir_path, c, a.timeout_ms) for c in chunks if c])
    tot = {k: sum((p[k] for p in parts), []) for k in ("violations", "unknown", "errors", "unsupported", "oblig_sat")}
    for k in ("decided_returns", "oblig_unsat", "paths", "queries", "solver_s"):
        tot[k] = sum(p[k] for p in parts)
    tot["oblig_unknown"] = {}
    for p in parts:
        for k, v in p["oblig_unknown"].items():
            tot["oblig_unknown"][k] = tot["oblig_unknown"].get(k, 0) + v
    tot["validation"] = {"runs": sum(p["validation"]["runs"] for p in parts), "reached_interpreted": sum(p["validation"]["reached_interpreted"] for p in parts),
                         "mismatches": sum((p["validation"]["mismatches"] for p in parts), [])}
    tot["interpreted"] = ["arch::x86_64::simd_str2int"]
    tot["opaque_calls"] = []
    tot["intrinsics_modelled"] = sorted(set(sum((p["intrinsics"] for p in parts), [])))
    tot["solver_calls"] = {k: sum(p["solver_calls"][k] for p in parts) for k in ("z3", "cvc5")}
    tot["cases"] = len(cases)
    tot["unrealisable"] = []
    tot["opaque_returns"] = tot["err_returns"] = tot["cache_hits"] = 0
    tot["exponents"] = None
    tot["wall_s"] = round(time.time() - t0, 1)
    json.dump(tot, open(a.out, "w"), indent=1, default=str)
    print("[smt] simd_str2int: %d cases (need x first-non-digit position x class), %d sums decided, %d assertions unsat, %d queries, solver %.1fs, wall %.1fs; %d/%d concrete validation runs agree"
          % (len(cases), tot["decided_returns"], tot["oblig_unsat"], tot["queries"], tot["solver_s"], tot["wall_s"],
             tot["validation"]["reached_interpreted"] - len(tot["validation"]["mismatches"]), tot["validation"]["runs"]))
    for v in (tot["violations"] + tot["oblig_sat"])[:5]:
        print("[smt] counterexample:", json.dumps(v))
    for k in ("unknown", "errors", "unsupported"):
        if tot[k]:
            print("[smt] %s: %s" % (k, tot[k][:4]))

if __name__ == "__main__":
    main()
