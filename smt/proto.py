import re, sys, time
from z3 import *
src = open('/repo/sonic-number/src/table.rs').read()
tab = [(int(a,16), int(b,16)) for a,b in re.findall(r'\(0x([0-9a-f]+), 0x([0-9a-f]+)\)', src)]
assert len(tab) == 651
W = 2**64
def check(e, variant=0, timeout=60000):
    sig2, sig2_ext = tab[e+342]
    s = Solver(); s.set('timeout', timeout)
    sig1 = Int('sig1'); s.add(sig1 >= 2**63, sig1 < W)
    P = sig1*sig2
    hi = Int('hi'); lo = Int('lo'); s.add(P == hi*W+lo, lo>=0, lo<W, hi>=0)
    hq = Int('hq'); bits = Int('bits'); s.add(hi == 512*hq+bits, bits>=0, bits<512)
    lim = 510 if variant==0 else 511
    brA = And(bits>=1, bits-1 < lim)
    hi2 = Int('hi2'); r2 = Int('r2'); s.add(sig1*sig2_ext == hi2*W + r2, r2>=0, r2<W, hi2>=0)
    add = Int('add'); c = Int('c'); s.add(lo+hi2 == c*W + add, add>=0, add<W, c>=0, c<=1)
    condB = And(add != 0, add != W-1)
    carry = Or(add < lo, add < hi2)
    hiB = hi + If(carry,1,0)
    exact = Or(brA, condB)
    h = If(brA, hi, hiB)
    lz2 = If(h < 2**63, 1, 0)
    h2 = If(h < 2**63, 2*h, h)
    s.add(h2 < W)   # hi <<= lz keeps width (checked separately)
    t = Int('t'); low = Int('low'); s.add(h2 == t*2048 + low, low>=0, low<2048)  # t: top 53 bits
    round_up = low >= 1024
    # hi += 1<<10 wrapping; if hi < 1<<10 -> overflowed -> hi=1<<63, exp2+=1
    ovf = And(round_up, t == 2**53-1)
    m = If(ovf, 2**52, t + If(round_up,1,0))     # 53-bit mantissa with implicit bit
    # exp2 (without lz): K = ((217706*e - 4128768)>>16) ; final E' s.t. f = m * 2^(Ef)
    K = (217706*e - 4128768) >> 16
    # exp2_final = K - lz - lz2 + 64 + (ovf) + 11 + 52 + 1023 ; field X. f = m*2^(X-1075)
    # E + lz = K - lz2 + 64 + ovf + 63 - 52 = K + 75 - lz2 + ovf
    # value: sig1 * 10^e (times 2^-lz).  compare 2*v*2^lz  vs (2m+-1)*2^(E+lz)
    # do for each of the 4 combos of lz2, ovf via If on shift amount: use explicit cases
    viol = []
    for l2 in (0,1):
        for ov in (0,1):
            Ep = K + 75 - l2 + ov     # f*2^lz = m*2^Ep
            # v*2^lz = sig1*5^e*2^e.  want (2m-1)*2^(Ep-1) <= sig1*5^e*2^e <= (2m+1)*2^(Ep-1)
            # multiply through to integers
            if e >= 0:
                lhs_c = 5**e; lhs_sh = e; rhs_c = 1
            else:
                lhs_c = 1; lhs_sh = e; rhs_c = 5**(-e)
            # sig1*lhs_c*2^lhs_sh  vs (2m+-1)*rhs_c*2^(Ep-1); and lower at pow2: (4m-1)*rhs_c*2^(Ep-2)
            sh = min(lhs_sh, Ep-2)
            L = sig1*lhs_c*(2**(lhs_sh-sh))
            up = (2*m+1)*rhs_c*(2**(Ep-1-sh))
            dn = If(m == 2**52, (4*m-1)*rhs_c*(2**(Ep-2-sh)), (2*m-1)*rhs_c*(2**(Ep-1-sh)))
            even = (m % 2 == 0)
            ok = And(Or(L < up, And(L == up, even)), Or(L > dn, And(L == dn, even)))
            viol.append(And(lz2 == l2, ovf == (ov==1), Not(ok)))
    s.add(exact, Or(viol))
    t0=time.time(); r = s.check(); dt=time.time()-t0
    return r, dt, (s.model() if r==sat else None)
for e in [int(x) for x in sys.argv[2:]]:
    r,dt,m = check(e, int(sys.argv[1]))
    print(e, r, '%.2fs'%dt, m[Int('sig1')] if m else '')
