#!/usr/bin/env python3
"""A small symbolic executor for loop-free integer MIR (rustc -Zunpretty=mir) producing SMT-LIB2
(linear integer arithmetic with the machine's mod-2^k semantics made explicit).

Every run parses the MIR that the nightly compiler prints for /repo's *current* source; nothing
about the functions is transcribed by hand.  What is hand-written is the semantics of MIR
operators (this file) and the property (float_check.py).

Values
  int   : python int (concrete)  or  T(smt term, lo, hi, tz)   (interval + known trailing zeros)
  bool  : python bool            or  BT(smt term)
  other : Tup, Adt, Ref, F64, Opq (an opaque value: result of a callee that is not interpreted)

Execution enumerates paths (DFS); a branch on a symbolic condition forks, a branch on a concrete
one does not (the exponent is concrete per query, so most of the control flow folds away).
`assert` terminators (overflow / bounds / shift checks of the dev profile) become *obligations*.
"""
import re, itertools

class Unsupported(Exception):
    pass

class PathLimit(Exception):
    pass

# optional hook set by the driver: PROVER(ctx, smt_bool_string) -> True if the path constraints imply it
PROVER = None
def proves(ctx, cond):
    return PROVER is not None and PROVER(ctx, cond)

# ----------------------------------------------------------------------------- types
INT_TY = {}
for w in (8, 16, 32, 64, 128):
    INT_TY["u%d" % w] = (0, 2 ** w - 1, w)
    INT_TY["i%d" % w] = (-2 ** (w - 1), 2 ** (w - 1) - 1, w)
INT_TY["usize"] = INT_TY["u64"]
INT_TY["isize"] = INT_TY["i64"]

# ----------------------------------------------------------------------------- terms
class T:
    __slots__ = ("s", "lo", "hi", "tz", "split", "tzx")
    def __init__(self, s, lo, hi, tz=0, split=None):
        self.s, self.lo, self.hi, self.tz = s, lo, hi, tz
        self.tzx = False        # tz is exact (the term is an odd multiple of 2^tz), by construction
        self.split = split      # (k, q, r): this term is q * 2^k + r with 0 <= r < 2^k, by construction
    def __repr__(self):
        return "T(%s,[%s,%s])" % (self.s if len(self.s) < 40 else self.s[:37] + "...", self.lo, self.hi)

class BT:
    __slots__ = ("s",)
    def __init__(self, s):
        self.s = s
    def __repr__(self):
        return "BT(%s)" % self.s

class Tup:
    def __init__(self, items):
        self.items = list(items)
    def __repr__(self):
        return "Tup%r" % (self.items,)

class Adt:
    def __init__(self, ty, variant, fields):
        self.ty, self.variant, self.fields = ty, variant, list(fields)
    def __repr__(self):
        return "%s::%s%r" % (self.ty, self.variant, self.fields)

class Struct:
    def __init__(self, ty, fields):
        self.ty, self.fields = ty, dict(fields)
    def __repr__(self):
        return "%s%r" % (self.ty, self.fields)

class Ref:
    """a reference: the frame that owns the local and the place inside it (the store is passed along
    with the path, so that a fork copies every frame at once)"""
    def __init__(self, fid, place):
        self.fid, self.place = fid, place

class ConstRef:
    """a reference returned by a (promoted) constant: the referent itself"""
    def __init__(self, value):
        self.value = value

class Env:
    """view of one frame (`fid`) of the path's store {(fid, local): value}"""
    __slots__ = ("store", "fid")
    def __init__(self, store, fid):
        self.store, self.fid = store, fid
    def __getitem__(self, k):
        return self.store[(self.fid, k)]
    def __setitem__(self, k, v):
        self.store[(self.fid, k)] = v
    def __contains__(self, k):
        return (self.fid, k) in self.store
    def get(self, k, d=None):
        return self.store.get((self.fid, k), d)
    def fork(self):
        return Env(dict(self.store), self.fid)
    def frame(self, fid):
        return Env(self.store, fid)

class F64:
    """float provenance: ('bits', int value) | ('neg', F64)"""
    def __init__(self, kind, arg):
        self.kind, self.arg = kind, arg
    def __repr__(self):
        return "F64(%s,%r)" % (self.kind, self.arg)

class Opq:
    def __init__(self, label):
        self.label = label
    def __repr__(self):
        return "Opq(%s)" % self.label

class Static:
    def __init__(self, name):
        self.name = name

class ArrayV:
    def __init__(self, items):
        self.items = list(items)

class ByteSlice:
    """a `&[u8]` argument: a python list of byte values (ints or T in 0..=255)"""
    def __init__(self, data):
        self.data = list(data)

class Ptr:
    def __init__(self, base, off=0):
        self.base, self.off = base, off

class Vec:
    """a 128-bit vector as lanes of `width` bits, each lane an unsigned value (int or T)"""
    def __init__(self, width, lanes):
        self.width, self.lanes = width, list(lanes)
        assert width * len(self.lanes) == 128
    def __repr__(self):
        return "Vec%d%r" % (self.width, self.lanes)

def smt_int(n):
    return str(n) if n >= 0 else "(- %d)" % (-n)

def sx(v):
    return smt_int(v) if isinstance(v, int) else v.s

def bsx(b):
    if b is True:
        return "true"
    if b is False:
        return "false"
    return b.s

def lo_of(v):
    return v if isinstance(v, int) else v.lo
def hi_of(v):
    return v if isinstance(v, int) else v.hi
def tz_of(v):
    if isinstance(v, int):
        if v == 0:
            return 10 ** 6
        return (v & -v).bit_length() - 1
    return v.tz

# ----------------------------------------------------------------------------- path context
class Ctx:
    """declarations + constraints of one path"""
    _n = itertools.count()
    def __init__(self):
        self.decls = []       # [(name, sort)]
        self.cons = []        # smt bool strings
        self.cache = {}       # (kind, key) -> value   (divmod / normalise results)
        self.trace = []       # branch decisions, for reports
    def fork(self):
        c = Ctx()
        c.decls = list(self.decls)
        c.cons = list(self.cons)
        c.cache = dict(self.cache)
        c.trace = list(self.trace)
        c.norms = list(getattr(self, "norms", []))
        c.pin_lz = getattr(self, "pin_lz", None)
        c.mark = getattr(self, "mark", None)
        c.base = getattr(self, "base", 0)
        return c
    def fresh(self, hint, lo, hi, sort="Int"):
        name = "%s_%d" % (hint, next(Ctx._n))
        self.decls.append((name, sort))
        if sort == "Int":
            if lo is not None:
                self.cons.append("(>= %s %s)" % (name, smt_int(lo)))
            if hi is not None:
                self.cons.append("(<= %s %s)" % (name, smt_int(hi)))
            return T(name, lo, hi)
        return BT(name)
    def assume(self, b):
        if b is True:
            return
        self.cons.append(bsx(b))
    def script(self, extra=(), only_callee=False):
        """only_callee: the input domain plus the constraints collected inside the first interpreted
        callee -- a weaker precondition than the whole path, so `unsat` carries over to every path
        that runs the callee the same way"""
        out = []
        for n, s in self.decls:
            out.append("(declare-const %s %s)" % (n, s))
        cons = self.cons
        if only_callee:
            cons = self.cons[:self.base] + self.cons[self.mark[0]:]
        for c in cons:
            out.append("(assert %s)" % c)
        for c in extra:
            out.append("(assert %s)" % c)
        return "\n".join(out)

def q(name):
    return name

# ----------------------------------------------------------------------------- arithmetic
def mk(s, lo, hi, tz=0):
    return T(s, lo, hi, tz)

def add(a, b):
    if isinstance(a, int) and isinstance(b, int):
        return a + b
    if isinstance(a, int) and a == 0:
        return b
    if isinstance(b, int) and b == 0:
        return a
    r = mk("(+ %s %s)" % (sx(a), sx(b)), lo_of(a) + lo_of(b), hi_of(a) + hi_of(b), min(tz_of(a), tz_of(b)))
    for x, y in ((a, b), (b, a)):
        x_exact = (isinstance(x, int) and x != 0) or (isinstance(x, T) and x.tzx)
        if x_exact and tz_of(x) < tz_of(y):
            r.tzx = True
    return r

def sub(a, b):
    if isinstance(a, int) and isinstance(b, int):
        return a - b
    if isinstance(b, int) and b == 0:
        return a
    return mk("(- %s %s)" % (sx(a), sx(b)), lo_of(a) - hi_of(b), hi_of(a) - lo_of(b), min(tz_of(a), tz_of(b)))

def mul(a, b):
    if isinstance(a, int) and isinstance(b, int):
        return a * b
    if isinstance(b, int):
        a, b = b, a
    if isinstance(a, int):
        if a == 0:
            return 0
        if a == 1:
            return b
        c = [a * b.lo, a * b.hi]
        r = mk("(* %s %s)" % (smt_int(a), b.s), min(c), max(c), b.tz + tz_of(a))
        if a > 0 and a & (a - 1) == 0:
            r.split = (a.bit_length() - 1, b, 0)
        return r
    c = [a.lo * b.lo, a.lo * b.hi, a.hi * b.lo, a.hi * b.hi]
    return mk("(* %s %s)" % (a.s, b.s), min(c), max(c), a.tz + b.tz)   # non-linear: the solver may answer unknown

def ite(c, a, b):
    if c is True:
        return a
    if c is False:
        return b
    if isinstance(a, int) and isinstance(b, int) and a == b:
        return a
    return mk("(ite %s %s %s)" % (c.s, sx(a), sx(b)), min(lo_of(a), lo_of(b)), max(hi_of(a), hi_of(b)), min(tz_of(a), tz_of(b)))

def divmod_pow2(ctx, x, k):
    """floor division / modulus by 2^k through fresh q, r with x = q*2^k + r"""
    if isinstance(x, int):
        return x >> k, x & ((1 << k) - 1)
    if k == 0:
        return x, 0
    if x.split is not None and x.split[0] == k:
        return x.split[1], x.split[2]
    key = ("dm", x.s, k)
    if key in ctx.cache:
        return ctx.cache[key]
    p = 1 << k
    if x.lo >= 0 and x.hi < p:
        r = (0, x)
    elif x.tz >= k:
        qv = ctx.fresh("q", x.lo >> k, x.hi >> k)
        qq = T(q(qv.s), qv.lo, qv.hi, x.tz - k)
        ctx.cons.append("(= %s (* %s %s))" % (x.s, smt_int(p), qq.s))
        r = (qq, 0)
    else:
        qv = ctx.fresh("q", x.lo >> k, x.hi >> k)
        rv = ctx.fresh("r", 0, p - 1)
        qq, rr = T(q(qv.s), qv.lo, qv.hi), T(q(rv.s), 0, p - 1)
        ctx.cons.append("(= %s (+ (* %s %s) %s))" % (x.s, smt_int(p), qq.s, rr.s))
        r = (qq, rr)
    ctx.cache[key] = r
    return r

def wrap(ctx, x, ty):
    lo, hi, w = INT_TY[ty]
    if isinstance(x, int):
        m = x & ((1 << w) - 1)
        if lo < 0 and m > hi:
            m -= 1 << w
        return m
    if x.lo >= lo and x.hi <= hi:
        return x
    key = ("wrap", x.s, ty)
    if key in ctx.cache:
        return ctx.cache[key]
    if ((x.lo - lo) >> w) == ((x.hi - lo) >> w):
        # the whole interval lies in one period: the wrapped value is x shifted by a known multiple of 2^w
        return sub(x, ((x.lo - lo) >> w) << w)
    if lo == 0:
        _, r = divmod_pow2(ctx, x, w)
        res = r if isinstance(r, int) else T(r.s, r.lo, r.hi, min(x.tz, w))
    else:
        # signed: r in [lo,hi], x = r + k*2^w
        kv = ctx.fresh("k", (x.lo - hi) >> w, (x.hi - lo + (1 << w) - 1) >> w)
        rv = ctx.fresh("r", lo, hi)
        ctx.cons.append("(= %s (+ %s (* %s %s)))" % (x.s, q(rv.s), smt_int(1 << w), q(kv.s)))
        res = T(q(rv.s), lo, hi)
    ctx.cache[key] = res
    return res

def in_range(x, ty):
    lo, hi, _ = INT_TY[ty]
    return band(cmp_("Ge", x, lo), cmp_("Le", x, hi))

def cmp_(op, a, b):
    f = {"Lt": lambda x, y: x < y, "Le": lambda x, y: x <= y, "Gt": lambda x, y: x > y, "Ge": lambda x, y: x >= y,
         "Eq": lambda x, y: x == y, "Ne": lambda x, y: x != y}[op]
    if isinstance(a, int) and isinstance(b, int):
        return f(a, b)
    al, ah, bl, bh = lo_of(a), hi_of(a), lo_of(b), hi_of(b)
    if op == "Lt":
        if ah < bl: return True
        if al >= bh: return False
    elif op == "Le":
        if ah <= bl: return True
        if al > bh: return False
    elif op == "Gt":
        if al > bh: return True
        if ah <= bl: return False
    elif op == "Ge":
        if al >= bh: return True
        if ah < bl: return False
    elif op in ("Eq", "Ne"):
        if ah < bl or al > bh:
            return op == "Ne"
    s = {"Lt": "<", "Le": "<=", "Gt": ">", "Ge": ">=", "Eq": "=", "Ne": "distinct"}[op]
    return BT("(%s %s %s)" % (s, sx(a), sx(b)))

def bnot(a):
    if isinstance(a, bool):
        return not a
    return BT("(not %s)" % a.s)

def band(a, b):
    if a is False or b is False:
        return False
    if a is True:
        return b
    if b is True:
        return a
    return BT("(and %s %s)" % (a.s, b.s))

def bor(a, b):
    if a is True or b is True:
        return True
    if a is False:
        return b
    if b is False:
        return a
    return BT("(or %s %s)" % (a.s, b.s))

def bool_to_int(b):
    if isinstance(b, bool):
        return int(b)
    return mk("(ite %s 1 0)" % b.s, 0, 1)

def normalise(ctx, x, w):
    """(n, lz) with lz = leading_zeros(x) and n = x << lz, exactly, as 64 linear implications"""
    key = ("norm", sx(x), w)
    if key in ctx.cache:
        return ctx.cache[key]
    if isinstance(x, int):
        lz = w - x.bit_length()
        r = ((x << lz) & ((1 << w) - 1), lz)
        ctx.cache[key] = r
        return r
    pin = getattr(ctx, "pin_lz", None)
    if pin is not None and pin[0] == x.s and pin[2] == w:
        # the caller restricted x to [2^(w-1-k), 2^(w-k)): leading_zeros(x) is k and x << k is linear
        k = pin[1]
        r = (T("(* %d %s)" % (1 << k, x.s), x.lo << k, x.hi << k, k), k)
        ctx.cache[key] = r
        ctx.cache[("lzof_pinned", x.s)] = r
        return r
    lzv = ctx.fresh("lz", 0, w)
    nv = ctx.fresh("n", 0, 2 ** w - 1)
    lz, n = T(q(lzv.s), 0, w), T(q(nv.s), 0, 2 ** w - 1)
    # n = x * 2^lz is not linear.  Asserted here is what every (x, lz, n) triple satisfies (an
    # over-approximation: n is not tied to x unless lz = 0); NORM_EXACT pins lz to one value and
    # makes the relation exact, which is how counterexamples are made concrete before replay.
    ctx.cons.append("(= (= %s 0) (= %s %d))" % (x.s, lz.s, w))
    ctx.cons.append("(=> (= %s %d) (= %s 0))" % (lz.s, w, n.s))
    ctx.cons.append("(=> (< %s %d) (>= %s %d))" % (lz.s, w, n.s, 1 << (w - 1)))
    ctx.cons.append("(>= %s %s)" % (n.s, x.s))
    ctx.cons.append("(=> (= %s 0) (= %s %s))" % (lz.s, n.s, x.s))
    ctx.norms = getattr(ctx, "norms", []) + [(x, lz, n, w)]
    ctx.cache[key] = (n, lz)
    ctx.cache[("lzof", lz.s)] = (x, n, w)
    return n, lz

def shl(ctx, x, k, ty):
    lo, hi, w = INT_TY[ty]
    if isinstance(k, int):
        return wrap(ctx, mul(x, 1 << k), ty)
    link = ctx.cache.get(("lzof", k.s))
    if link is not None and sx(link[0]) == sx(x) and link[2] == w:
        # x << leading_zeros(x); callers have asserted lz < w, so x != 0
        n = link[1]
        return n
    if k.hi - k.lo <= 3:
        r = wrap(ctx, mul(x, 1 << k.hi), ty)
        for j in range(k.hi - 1, k.lo - 1, -1):
            r = ite(cmp_("Eq", k, j), wrap(ctx, mul(x, 1 << j), ty), r)
        return r
    raise Unsupported("shift left by a symbolic amount with a wide range: %r" % (k,))

def shr(ctx, x, k, ty):
    if isinstance(k, int):
        return divmod_pow2(ctx, x, k)[0]
    if k.hi - k.lo <= 3:
        r = divmod_pow2(ctx, x, k.hi)[0]
        for j in range(k.hi - 1, k.lo - 1, -1):
            r = ite(cmp_("Eq", k, j), divmod_pow2(ctx, x, j)[0], r)
        return r
    raise Unsupported("shift right by a symbolic amount with a wide range: %r" % (k,))

def bitand(ctx, a, b, ty):
    if isinstance(a, int) and isinstance(b, int):
        return a & b
    if isinstance(a, int):
        a, b = b, a
    if not isinstance(b, int):
        raise Unsupported("bitand of two symbolic values")
    if lo_of(a) < 0 or b < 0:
        raise Unsupported("bitand on negative values")
    res, i = 0, 0
    while (b >> i) != 0:
        if (b >> i) & 1:
            j = i
            while (b >> j) & 1:
                j += 1
            if not isinstance(a, int) and a.hi >= (1 << i) and i > 0 and proves(ctx, "(< %s %d)" % (a.s, 1 << i)):
                break       # nothing of `a` reaches this run of the mask
            hi_part, _ = divmod_pow2(ctx, a, i)
            _, piece = divmod_pow2(ctx, hi_part, j - i)
            res = add(res, mul(piece, 1 << i))
            i = j
        else:
            i += 1
    return res

def bitor(ctx, a, b, ty):
    if isinstance(a, int) and isinstance(b, int):
        return a | b
    for x, y in ((a, b), (b, a)):
        if isinstance(y, int) and y == 0:
            return x
        if lo_of(y) >= 0 and lo_of(x) >= 0 and hi_of(y) < (1 << min(tz_of(x), 200)):
            r = add(x, y)
            if isinstance(r, T) and isinstance(x, T) and x.split is not None and x.split[2] == 0 and hi_of(y) < (1 << x.split[0]):
                r.split = (x.split[0], x.split[1], y)
            return r
    for x, y in ((a, b), (b, a)):
        k = min(tz_of(x), 200)
        if isinstance(x, T) and k > 0 and lo_of(y) >= 0 and lo_of(x) >= 0 and proves(ctx, "(< %s %d)" % (sx(y), 1 << k)):
            r = add(x, y)
            if isinstance(r, T) and x.split is not None and x.split[2] == 0 and x.split[0] <= k:
                yy = y if isinstance(y, int) else T(y.s, y.lo, min(y.hi, (1 << k) - 1), y.tz)
                r.split = (x.split[0], x.split[1], yy) if x.split[0] == k else None
            return r
    raise Unsupported("bitor of overlapping symbolic values")

# ----------------------------------------------------------------------------- MIR parsing
class Fn:
    def __init__(self, name):
        self.name, self.args, self.locals, self.blocks, self.ret = name, [], {}, {}, None

def split_top(s, sep=","):
    out, depth, cur = [], 0, ""
    instr = False
    for ch in s:
        if ch == '"':
            instr = not instr
        if not instr:
            if ch in "([{<":
                depth += 1
            elif ch in ")]}>":
                depth -= 1
        if ch == sep and depth == 0 and not instr:
            out.append(cur.strip())
            cur = ""
        else:
            cur += ch
    if cur.strip():
        out.append(cur.strip())
    return out

def parse_mir(text):
    fns, consts = {}, {}
    lines = text.split("\n")
    i = 0
    while i < len(lines):
        ln = lines[i]
        m = re.match(r"^(?:pub )?(?:const|static) (.+): ([^=]+?) = (.*)$", ln)
        if m and not ln.startswith(" "):
            name, ty, rest = m.group(1), m.group(2), m.group(3)
            if rest.startswith("const ") and rest.endswith(";"):
                consts[name] = ("lit", rest[6:-1], ty)
                i += 1
                continue
            if rest.strip() == "{":
                f = Fn(name)
                f.ret = ty
                i = parse_body(lines, i + 1, f)
                consts[name] = ("body", f, ty)
                continue
        m = re.match(r"^fn (.+?)\((.*)\)(?: -> (.+))? \{$", ln)
        if m and not ln.startswith(" "):
            f = Fn(m.group(1))
            f.ret = m.group(3) or "()"
            for a in split_top(m.group(2)):
                am = re.match(r"^(_\d+): (.+)$", a)
                if am:
                    f.args.append(am.group(1))
                    f.locals[am.group(1)] = am.group(2)
            i = parse_body(lines, i + 1, f)
            fns[f.name] = f
            continue
        i += 1
    return fns, consts

def parse_body(lines, i, f):
    cur = None
    while i < len(lines):
        ln = lines[i]
        if ln.startswith("}"):
            return i + 1
        s = ln.strip()
        m = re.match(r"^let (?:mut )?(_\d+): (.+);$", s)
        if m:
            f.locals[m.group(1)] = m.group(2)
        else:
            m = re.match(r"^(bb\d+)(?: \(cleanup\))?: \{$", s)
            if m:
                cur = m.group(1)
                f.blocks[cur] = []
            elif cur is not None and s and s != "}" and not s.startswith(("debug ", "scope ", "//")):
                f.blocks[cur].append(s)
        i += 1
    return i

# ----------------------------------------------------------------------------- places
def parse_place(s):
    """-> (local, [proj...]) with proj in ('deref',), ('field', k), ('index', local), ('downcast', name)"""
    s = s.strip()
    if re.match(r"^_\d+$", s):
        return (s, [])
    if s.endswith("]") and not s.startswith("["):
        # place[_N]
        d = 0
        for j in range(len(s) - 1, -1, -1):
            if s[j] == "]":
                d += 1
            elif s[j] == "[":
                d -= 1
                if d == 0:
                    base, idx = s[:j], s[j + 1:-1]
                    b = parse_place(base)
                    return (b[0], b[1] + [("index", idx.strip())])
    if s.startswith("(*") and s.endswith(")"):
        b = parse_place(s[2:-1])
        return (b[0], b[1] + [("deref",)])
    if s.startswith("(") and s.endswith(")"):
        inner = s[1:-1]
        # "<place> as Variant"  or "<place>.K: type"
        m = re.match(r"^(.*) as (\w+)$", inner)
        if m and balanced(m.group(1)):
            b = parse_place(m.group(1))
            return (b[0], b[1] + [("downcast", m.group(2))])
        # find ".K: " at depth 0 from the right
        d = 0
        for j in range(len(inner)):
            ch = inner[j]
            if ch in "([":
                d += 1
            elif ch in ")]":
                d -= 1
            elif ch == "." and d == 0:
                m = re.match(r"^\.(\d+): ", inner[j:])
                if m:
                    b = parse_place(inner[:j])
                    return (b[0], b[1] + [("field", int(m.group(1)))])
    raise Unsupported("place syntax: " + s)

def balanced(s):
    d = 0
    for ch in s:
        if ch in "([":
            d += 1
        elif ch in ")]":
            d -= 1
            if d < 0:
                return False
    return d == 0

VARIANT_INDEX = {
    ("Option", "None"): 0, ("Option", "Some"): 1, ("Result", "Ok"): 0, ("Result", "Err"): 1,
    ("ControlFlow", "Continue"): 0, ("ControlFlow", "Break"): 1,
}

# ----------------------------------------------------------------------------- interpreter
class Obligation:
    def __init__(self, fn, bb, msg, ctx, cond):
        self.fn, self.bb, self.msg, self.ctx, self.cond = fn, bb, msg, ctx, cond

class Interp:
    def __init__(self, fns, consts, statics, interpret, intrinsics=None, feasible=None, max_paths=4000):
        self.fns, self.consts, self.statics = fns, consts, statics
        self.interpret = set(interpret)
        max_paths = max(max_paths, 20000)
        self.obligations = []
        self.feasible = feasible or (lambda ctx, extra: True)
        self.paths = 0
        self.max_paths = max_paths
        self.opaque_calls = set()
        self.interpreted_calls = set()
        self.impl_consts = {}      # "<F as Trait>::NAME" -> value, supplied by the caller
        self.intrinsics_used = set()
        self.const_cache = {}
        self.inexact = []
        self.call_log = []
        self.frames = 0
        self.max_blocks = 20000
        self.tolerate_unsupported = False
        self.unsupported_paths = []
        self.infeasible_dropped = 0

    # -- lookup
    def find_fn(self, callee):
        name = re.sub(r"::<[^()]*>$", "", callee.strip())
        name = re.sub(r"::<.*?>", "", name)
        if name in self.fns:
            return self.fns[name]
        short = name.split("::")[-1]
        c = [f for n, f in self.fns.items() if re.sub(r"::<.*?>", "", n).split("::")[-1] == short]
        if len(c) == 1:
            return c[0]
        c2 = [f for n, f in self.fns.items() if re.sub(r"::<.*?>", "", n).endswith(name)]
        if len(c2) == 1:
            return c2[0]
        return None

    # -- constants
    def const(self, s, env):
        s = s.strip()
        if s == "true":
            return True
        if s == "false":
            return False
        m = re.match(r"^(-?\d+)_([iu](?:8|16|32|64|128|size))$", s)
        if m:
            return int(m.group(1))
        m = re.match(r"^([iu](?:8|16|32|64|128|size))::(MAX|MIN)$", s)
        if m:
            lo, hi, _ = INT_TY[m.group(1)]
            return hi if m.group(2) == "MAX" else lo
        m = re.match(r"^\{alloc\d+: &(.+)\}$", s)
        if m:
            return Static(m.group(1))
        if s.startswith('"'):
            return Opq("str")
        if re.match(r"^-?[\d.]+(E[+-]?\d+)?f64$", s):
            return F64("lit", s[:-3])
        if re.match(r"^-?[\d.]+(E[+-]?\d+)?f32$", s) or s in ("f64::INFINITY", "f64::NAN"):
            return Opq("float-const")
        m = re.match(r"^<\w+ as (?:[\w:]+::)?RawFloat>::(\w+)$", s)
        if m and m.group(1) in self.impl_consts:
            kind, val, ty = self.impl_consts[m.group(1)]
            if kind == "lit":
                return self.const(val, env)
            outs = list(self.run_fn(val, [], Ctx()))
            return outs[0][1]
        if s in self.impl_consts:
            return self.impl_consts[s]
        # named const / promoted
        key = s
        cands = [k for k in self.consts if k == key or k.endswith("::" + key) or key.endswith("::" + k) or
                 re.sub(r"::<.*?>", "", key).endswith(re.sub(r"::<.*?>", "", k))]
        if "promoted[" in key:
            tail = re.sub(r"::<.*?>", "", key).split("::")
            tail = "::".join(tail[-2:])
            cands = [k for k in self.consts if k == tail or k.endswith("::" + tail) or tail.endswith(k)]
        if len(cands) >= 1:
            cands.sort(key=len)
            kind, val, ty = self.consts[cands[-1]]
            if kind == "lit":
                return self.const(val, env)
            if key in self.const_cache:
                return self.const_cache[key]
            saved = self.paths
            outs = list(self._run_fn(val, [], Ctx(), {}))
            self.paths = saved
            if len(outs) != 1:
                raise Unsupported("constant body with several paths: " + key)
            rv = outs[0][1]
            if isinstance(rv, Ref):
                rv = ConstRef(self.read_place(Env(outs[0][2], rv.fid), rv.place))
            self.const_cache[key] = rv
            return rv
        raise Unsupported("constant: " + s)

    # -- places
    def read_place(self, env, place):
        local, projs = place
        if local not in env:
            raise Unsupported("read of unset local " + local)
        v = env[local]
        for p in projs:
            v = self.project(v, p, env)
        return v

    def project(self, v, p, env):
        if isinstance(v, Opq):
            return Opq(v.label + "." + str(p[-1]))
        if p[0] == "deref":
            if isinstance(v, Ref):
                return self.read_place(env.frame(v.fid), v.place)
            if isinstance(v, ConstRef):
                return v.value
            if isinstance(v, (Static, ByteSlice)):
                return v
            raise Unsupported("deref of %r" % (v,))
        if p[0] == "field":
            if isinstance(v, Tup):
                return v.items[p[1]]
            if isinstance(v, Adt):
                return v.fields[p[1]]
            if isinstance(v, Struct):
                return list(v.fields.values())[p[1]]
            raise Unsupported("field of %r" % (v,))
        if p[0] == "downcast":
            if isinstance(v, Adt):
                if v.variant != p[1]:
                    raise Unsupported("downcast to a different variant")
                return v
            raise Unsupported("downcast of %r" % (v,))
        if p[0] == "index":
            idx = env[p[1]]
            if isinstance(v, (ByteSlice, ArrayV)):
                if not isinstance(idx, int):
                    raise Unsupported("symbolic index into a slice")
                seq = v.data if isinstance(v, ByteSlice) else v.items
                if not 0 <= idx < len(seq):
                    raise Unsupported("index %d outside a slice of %d (the bounds assertion precedes)" % (idx, len(seq)))
                return seq[idx]
            if isinstance(v, Static):
                if not isinstance(idx, int):
                    raise Unsupported("symbolic index into a static table")
                tab = self.statics.get(v.name)
                if tab is None:
                    raise Unsupported("unknown static " + v.name)
                e = tab[idx]
                return Tup(e) if isinstance(e, tuple) else e
            raise Unsupported("index of %r" % (v,))
        raise Unsupported("projection %r" % (p,))

    def write_place(self, env, place, val):
        local, projs = place
        if not projs:
            env[local] = val
            return
        if projs[0][0] == "deref":
            r = env[local]
            if isinstance(r, Ref):
                self.write_place(env.frame(r.fid), (r.place[0], r.place[1] + projs[1:]), val)
                return
            if isinstance(r, Opq):
                return
            raise Unsupported("write through %r" % (r,))
        if len(projs) == 1 and projs[0][0] == "field":
            cur = env.get(local)
            k = projs[0][1]
            if isinstance(cur, Tup):
                items = list(cur.items); items[k] = val
                env[local] = Tup(items)
                return
            if isinstance(cur, Struct):
                f = dict(cur.fields)
                f[list(f.keys())[k]] = val
                env[local] = Struct(cur.ty, f)
                return
            if isinstance(cur, Opq):
                return
        raise Unsupported("write to projected place %r" % (place,))

    # -- operands / rvalues
    def operand(self, s, env):
        s = s.strip()
        if s.startswith("copy "):
            return self.read_place(env, parse_place(s[5:]))
        if s.startswith("move "):
            return self.read_place(env, parse_place(s[5:]))
        if s.startswith("const "):
            return self.const(s[6:], env)
        raise Unsupported("operand: " + s)

    def rvalue(self, s, env, ctx, fn, dst_ty):
        s = s.strip()
        m = re.match(r"^(\w+)\((.*)\)$", s)
        if m and m.group(1) in BINOPS:
            a, b = split_top(m.group(2))
            return self.binop(m.group(1), self.operand(a, env), self.operand(b, env), ctx, fn, a, env)
        if m and m.group(1) in ("AddWithOverflow", "SubWithOverflow", "MulWithOverflow"):
            a, b = split_top(m.group(2))
            ty = self.ty_of_operand(a, fn, env)
            x, y = self.operand(a, env), self.operand(b, env)
            if isinstance(x, Opq) or isinstance(y, Opq):
                return Tup([Opq("arith"), Opq("ovf")])
            exact = {"A": add, "S": sub, "M": mul}[m.group(1)[0]](x, y)
            ovf = bnot(in_range(exact, ty))
            return Tup([wrap(ctx, exact, ty), ovf])
        if m and m.group(1) == "Not":
            v = self.operand(m.group(2), env)
            if isinstance(v, (bool, BT)):
                return bnot(v)
            if isinstance(v, Opq):
                return v
            if isinstance(v, int) and dst_ty in INT_TY:
                return wrap(ctx, -v - 1, dst_ty)
            raise Unsupported("bitwise Not on a symbolic integer")
        if m and m.group(1) == "Neg":
            v = self.operand(m.group(2), env)
            if isinstance(v, F64):
                return F64("neg", v)
            if isinstance(v, Opq):
                return Opq("neg(" + v.label + ")")
            return wrap(ctx, sub(0, v), dst_ty)
        if m and m.group(1) in ("PtrMetadata", "Len"):
            inner = m.group(2)
            v = self.operand(inner, env) if inner.startswith(("copy ", "move ")) else self.read_place(env, parse_place(inner))
            if isinstance(v, Ref):
                v = self.read_place(env.frame(v.fid), v.place)
            if isinstance(v, ByteSlice):
                return len(v.data)
            if isinstance(v, ArrayV):
                return len(v.items)
            raise Unsupported("length of %r" % (v,))
        if m and m.group(1) == "discriminant":
            v = self.read_place(env, parse_place(m.group(2)))
            if isinstance(v, Adt):
                k = VARIANT_INDEX.get((v.ty, v.variant))
                if k is None:
                    raise Unsupported("discriminant of %s::%s" % (v.ty, v.variant))
                return k
            if isinstance(v, Opq):
                return Opq("discriminant(" + v.label + ")")
            raise Unsupported("discriminant of %r" % (v,))
        m = re.match(r"^(.*) as (.+?) \((\w+)(?:\(.*\))?\)$", s)
        if m and (m.group(1).startswith(("copy ", "move ", "const "))):
            v = self.operand(m.group(1), env)
            kind, ty = m.group(3), m.group(2)
            if isinstance(v, Opq):
                return Opq("cast(" + v.label + ")")
            if isinstance(v, Ptr) and kind == "PtrToPtr":
                return v
            if kind == "IntToInt":
                if isinstance(v, (bool, BT)):
                    v = bool_to_int(v)
                return wrap(ctx, v, ty)
            if kind == "IntToFloat" and ty == "f64" and not isinstance(v, (bool, BT)):
                return F64("int", v)
            return Opq("cast-" + kind)
        if s.startswith("&"):
            body = s[1:]
            body = re.sub(r"^(mut |raw const |raw mut )", "", body)
            return Ref(env.fid, parse_place(body))
        if s.startswith(("copy ", "move ", "const ")):
            return self.operand(s, env)
        # aggregates
        if s.startswith("[") and s.endswith("]") and "; " not in s:
            return ArrayV([self.operand(x, env) for x in split_top(s[1:-1])])
        if s.startswith("(") and s.endswith(")"):
            return Tup([self.operand(x, env) for x in split_top(s[1:-1])])
        m = re.match(r"^([\w:<>, ]+?)::(\w+)\((.*)\)$", s)
        if m:
            ty = re.sub(r"::<.*>$", "", m.group(1)).split("::")[-1]
            return Adt(ty, m.group(2), [self.operand(x, env) for x in split_top(m.group(3))])
        m = re.match(r"^([\w:<>, ]+?)::(\w+)$", s)
        if m:
            ty = re.sub(r"::<.*>$", "", m.group(1)).split("::")[-1]
            return Adt(ty, m.group(2), [])
        m = re.match(r"^([\w:<>]+) \{ (.*) \}$", s)
        if m:
            fields = []
            for part in split_top(m.group(2)):
                k, v = part.split(": ", 1)
                fields.append((k.strip(), self.operand(v, env)))
            return Struct(m.group(1).split("::")[-1], fields)
        raise Unsupported("rvalue: " + s)

    def ty_of_operand(self, s, fn, env):
        s = s.strip()
        if s.startswith(("copy ", "move ")):
            pl = s[5:].strip()
            if re.match(r"^_\d+$", pl):
                return fn.locals[pl]
            m = re.search(r": ([iu](?:8|16|32|64|128|size))\)$", pl)
            if m:
                return m.group(1)
            m = re.match(r"^\(\*(_\d+)\)(\[_\d+\])?$", pl)
            if m and m.group(1) in fn.locals:
                t = re.sub(r"^(&'?\w* ?mut |&mut |&|\*const |\*mut )", "", fn.locals[m.group(1)]).strip()
                if m.group(2):
                    mm = re.match(r"^\[(\w+)(; \d+)?\]$", t)
                    t = mm.group(1) if mm else t
                if t in INT_TY:
                    return t
        if s.startswith("const "):
            m = re.search(r"_([iu](?:8|16|32|64|128|size))$", s)
            if m:
                return m.group(1)
            m = re.match(r"^const ([iu](?:8|16|32|64|128|size))::", s)
            if m:
                return m.group(1)
            # named constant: look up its declared type
            key = s[6:].strip()
            for k, (kind, val, ty) in self.consts.items():
                if k == key or k.endswith("::" + key):
                    return ty
            m = re.match(r"^<\w+ as (?:[\w:]+::)?RawFloat>::(\w+)$", key)
            if m and m.group(1) in self.impl_consts:
                return self.impl_consts[m.group(1)][2]
            if key in self.impl_const_types:
                return self.impl_const_types[key]
        raise Unsupported("type of operand: " + s)

    impl_const_types = {}

    def binop(self, op, x, y, ctx, fn, a_src, env):
        if isinstance(x, Opq) or isinstance(y, Opq):
            return Opq(op)
        if isinstance(x, (F64,)) or isinstance(y, (F64,)):
            if op in ("Mul", "Div") and isinstance(x, F64) and isinstance(y, F64):
                return self.float_muldiv(op, x, y, ctx)
            return Opq(op + "-float")
        if op in ("Eq", "Ne", "Lt", "Le", "Gt", "Ge"):
            if isinstance(x, (bool, BT)) or isinstance(y, (bool, BT)):
                x, y = bool_to_int(x), bool_to_int(y)
            return cmp_(op, x, y)
        if isinstance(x, (bool, BT)) and isinstance(y, (bool, BT)):
            if op == "BitAnd":
                return band(x, y)
            if op == "BitOr":
                return bor(x, y)
            if op == "BitXor":
                return bnot(BT("(= %s %s)" % (bsx(x), bsx(y)))) if not (isinstance(x, bool) and isinstance(y, bool)) else (x != y)
        ty = self.ty_of_operand(a_src, fn, env)
        if op == "Add":
            return wrap(ctx, add(x, y), ty)
        if op == "Sub":
            return wrap(ctx, sub(x, y), ty)
        if op == "Mul":
            return wrap(ctx, mul(x, y), ty)
        if op == "Shl":
            return shl(ctx, x, y, ty)
        if op == "Shr":
            return shr(ctx, x, y, ty)
        if op == "BitAnd":
            return bitand(ctx, x, y, ty)
        if op == "BitOr":
            return bitor(ctx, x, y, ty)
        raise Unsupported("binary operator " + op)

    # -- IEEE-754 double arithmetic on exactly known operands
    # F64 kinds used here: ("lit", text) a literal; ("int", v) the conversion of integer v; ("q", (num, den)) exactly num/den;
    # ("rn", (num, den)) the double nearest to num/den.  One operation on exact operands returns the nearest double of the exact
    # result (IEEE 754, round to nearest even): that is the whole model.  Whether an operand *is* exact is proved from the
    # path constraints (an integer of magnitude <= 2^53 is); where it cannot be proved the operation is recorded as a
    # suspect (`inexact`) with the condition under which it would be inexact, and the result is opaque.
    def float_exact(self, v, ctx):
        from fractions import Fraction
        neg = False
        while isinstance(v, F64) and v.kind == "neg":
            v, neg = v.arg, not neg
        sgn = -1 if neg else 1
        if v.kind == "lit":
            fr = Fraction(float(v.arg))
            return (sgn * fr.numerator, fr.denominator)
        if v.kind == "q":
            return (mul(sgn, v.arg[0]), v.arg[1])
        if v.kind == "int" or (v.kind == "rn" and v.arg[1] == 1):
            n = v.arg if v.kind == "int" else v.arg[0]
            if isinstance(n, int):
                return (sgn * n, 1) if abs(n) <= 2 ** 53 else None
            cond = "(and (<= %s %d) (>= %s %d))" % (n.s, 2 ** 53, n.s, -(2 ** 53))
            if (n.lo >= -(2 ** 53) and n.hi <= 2 ** 53) or proves(ctx, cond):
                return (mul(sgn, n), 1)
            self.inexact.append((ctx.fork(), "(not %s)" % cond))
            return None
        return None

    def float_muldiv(self, op, x, y, ctx):
        from math import gcd
        a, b = self.float_exact(x, ctx), self.float_exact(y, ctx)
        if a is None or b is None:
            return Opq(op + "-float-inexact")
        if op == "Div":
            if not isinstance(b[0], int) or b[0] == 0:
                return Opq("Div-float")
            b = (b[1], b[0]) if b[0] > 0 else (-b[1], -b[0])
        if not isinstance(a[0], int) and not isinstance(b[0], int):
            return Opq(op + "-float-nonlinear")
        cn = (a[0] if isinstance(a[0], int) else 1) * (b[0] if isinstance(b[0], int) else 1)
        sym = a[0] if not isinstance(a[0], int) else (b[0] if not isinstance(b[0], int) else None)
        den = a[1] * b[1]
        g = gcd(abs(cn), den) or 1
        cn, den = cn // g, den // g
        num = cn if sym is None else mul(cn, sym)
        return F64("rn", (num, den))

    # -- calls
    def call(self, callee, args, ctx, env, fn, dst_ty):
        """yields (ctx, value, store)"""
        name = callee.strip()
        base = re.sub(r"::<.*?>", "", name)
        last = base.split("::")[-1]
        def deref(v):
            if isinstance(v, ConstRef):
                return v.value
            if isinstance(v, Ref):
                return self.read_place(env.frame(v.fid), v.place)
            return v
        if last == "leading_zeros" and "impl u" in name:
            w = int(re.search(r"impl u(\d+)", name).group(1))
            x = args[0]
            if isinstance(x, Opq):
                yield ctx, Opq("lz"), env.store; return
            n, lz = normalise(ctx, x, w)
            yield ctx, lz, env.store; return
        if last in ("wrapping_add", "wrapping_sub", "wrapping_mul") and "impl " in name:
            ty = re.search(r"impl ([iu]\w+)", name).group(1)
            if any(isinstance(a, Opq) for a in args):
                yield ctx, Opq(last), env.store; return
            f = {"wrapping_add": add, "wrapping_sub": sub, "wrapping_mul": mul}[last]
            yield ctx, wrap(ctx, f(args[0], args[1]), ty), env.store; return
        if last == "new" and "RangeInclusive" in name:
            yield ctx, Adt("RangeInclusive", "new", args), env.store; return
        if last == "contains" and "RangeInclusive" in name:
            r, x = args
            if isinstance(r, ConstRef):
                r = r.value
            if isinstance(r, Ref):
                r = self.read_place(env.frame(r.fid), r.place)
            if isinstance(x, Ref):
                x = self.read_place(env.frame(x.fid), x.place)
            if isinstance(r, Adt) and not isinstance(x, (Opq, F64)) and not any(isinstance(v, Opq) for v in r.fields):
                yield ctx, band(cmp_("Le", r.fields[0], x), cmp_("Le", x, r.fields[1])), env.store; return
            if isinstance(r, Adt) and isinstance(x, F64) and x.kind in ("rn", "q") and all(isinstance(v, F64) and v.kind == "lit" for v in r.fields):
                # lo <= RN(n/d) <= hi  <=>  lo <= n/d <= hi   when lo and hi are doubles (rounding is monotone and fixes doubles)
                from fractions import Fraction
                lo, hi = Fraction(float(r.fields[0].arg)), Fraction(float(r.fields[1].arg))
                n, d = x.arg
                c1 = cmp_("Ge", mul(lo.denominator, n), lo.numerator * d)
                c2 = cmp_("Le", mul(hi.denominator, n), hi.numerator * d)
                yield ctx, band(c1, c2), env.store; return
            yield ctx, Opq("contains"), env.store; return
        if last in ("ne", "eq") and "PartialEq" in name:
            a, b = deref(args[0]), deref(args[1])
            if isinstance(a, Struct) and isinstance(b, Struct) and list(a.fields) == list(b.fields) and \
                    all(isinstance(v, (int, T)) for v in list(a.fields.values()) + list(b.fields.values())):
                diff = False
                for k in a.fields:
                    diff = bor(diff, cmp_("Ne", a.fields[k], b.fields[k]))
                yield ctx, (diff if last == "ne" else bnot(diff)), env.store; return
            yield ctx, Opq(last), env.store; return
        if last == "is_infinite" and "f64" in name:
            v = args[0]
            while isinstance(v, F64) and v.kind == "neg":
                v = v.arg
            if isinstance(v, F64) and v.kind == "bits" and not isinstance(v.arg, Opq):
                ctx.cache[("isinf_decided",)] = True
                yield ctx, cmp_("Eq", v.arg, 0x7FF0000000000000), env.store; return
            ctx.cache[("isinf_decided",)] = False
            yield ctx, Opq("is_infinite"), env.store; return
        if last == "from_u64_bits":
            if isinstance(args[0], Opq):
                yield ctx, Opq("f64"), env.store; return
            yield ctx, F64("bits", args[0]), env.store; return
        def deref(v):
            if isinstance(v, ConstRef):
                return v.value
            if isinstance(v, Ref):
                return self.read_place(env.frame(v.fid), v.place)
            return v
        if last == "is_ascii_digit" and "impl u8" in name:
            x = deref(args[0])
            if isinstance(x, Opq):
                yield ctx, Opq(last), env.store; return
            yield ctx, band(cmp_("Ge", x, 48), cmp_("Le", x, 57)), env.store; return
        if last == "get_unchecked" and "impl [u8]" in name:
            sl, i = deref(args[0]), args[1]
            if isinstance(sl, ByteSlice) and isinstance(i, int) and 0 <= i < len(sl.data):
                yield ctx, ConstRef(sl.data[i]), env.store; return
            raise Unsupported("get_unchecked with a symbolic or out-of-range index")
        if last == "index" and "RangeFrom" in name and "[u8]" in name:
            sl, r = deref(args[0]), args[1]
            start = list(r.fields.values())[0] if isinstance(r, Struct) else None
            if isinstance(sl, ByteSlice) and isinstance(start, int) and 0 <= start <= len(sl.data):
                out = ByteSlice(sl.data[start:])
                out.origin = (getattr(sl, "origin", (id(sl), 0))[0], getattr(sl, "origin", (id(sl), 0))[1] + start)
                yield ctx, out, env.store; return
            raise Unsupported("slice[start..] with a symbolic start")
        if last == "sub" and "<&u8 as Sub<u8>>" in name:
            x, y = deref(args[0]), args[1]
            ok = cmp_("Ge", x, y)
            if ok is not True:
                self.obligations.append(Obligation(fn.name, "?", "attempt to subtract with overflow", ctx.fork(), ok))
                if ok is not False:
                    ctx.assume(ok)
            yield ctx, sub(x, y), env.store; return
        if last in ("overflowing_add", "overflowing_mul", "overflowing_sub") and "impl " in name:
            ty = re.search(r"impl ([iu]\w+)", name).group(1)
            exact = {"overflowing_add": add, "overflowing_mul": mul, "overflowing_sub": sub}[last](args[0], args[1])
            yield ctx, Tup([wrap(ctx, exact, ty), bnot(in_range(exact, ty))]), env.store; return
        if last == "branch" and " as Try>" in name:
            v = args[0]
            if isinstance(v, Adt) and v.ty == "Result":
                if v.variant == "Ok":
                    yield ctx, Adt("ControlFlow", "Continue", v.fields), env.store; return
                yield ctx, Adt("ControlFlow", "Break", [v]), env.store; return
            raise Unsupported("Try::branch on %r" % (v,))
        if last == "from_residual":
            yield ctx, args[0], env.store; return
        m_g = re.match(r"^(.*?)::<(-?\d+)>$", name)
        plain, generic = (m_g.group(1), int(m_g.group(2))) if m_g else (name, None)
        iname = plain.split("::")[-1]
        if iname in SIMD and "arch::x86_64" in plain:
            self.intrinsics_used.add(iname)
            yield ctx, SIMD[iname](ctx, args, generic), env.store; return
        if last == "as_ptr" and "impl [u8]" in name and isinstance(args[0], ByteSlice):
            yield ctx, Ptr(args[0]), env.store; return
        if last == "trailing_zeros" and "impl " in name:
            x = args[0]
            if isinstance(x, int):
                yield ctx, (tz_of(x) if x != 0 else int(re.search(r"impl [iu](\d+)", name).group(1))), env.store; return
            if isinstance(x, T) and x.tzx:
                yield ctx, x.tz, env.store; return
            raise Unsupported("trailing_zeros of a value whose lowest set bit is not known")
        f = self.find_fn(name)
        if f is not None and f.name.split("::")[-1].split("<")[0] in self.interpret:
            self.interpreted_calls.add(f.name)
            if getattr(ctx, "mark", None) is None:
                ctx.mark = (len(ctx.cons), f.name)     # constraints from here on belong to the callee
            yield from self._run_fn(f, args, ctx, env.store)
            return
        self.opaque_calls.add(base)
        self.call_log.append((last, args, ctx))
        yield ctx, Opq(last + "#%d" % len(self.call_log)), env.store

    # -- execution
    def run_fn(self, f, args, ctx, store=None):
        """yields (ctx, return value) per path"""
        for c, rv, _st in self._run_fn(f, args, ctx, store if store is not None else {}):
            yield c, rv

    def _run_fn(self, f, args, ctx, store):
        self.frames += 1
        env = Env(store, self.frames)
        for a, v in zip(f.args, args):
            env[a] = v
        yield from self.run_block(f, "bb0", env, ctx, 0)

    def run_block(self, f, bb, env, ctx, depth):
        """a path that needs an operator the translator does not model ends there and is counted
        (`unsupported_paths`); the other paths go on"""
        try:
            yield from self._run_block(f, bb, env, ctx, depth)
        except Unsupported as ex:
            if not self.tolerate_unsupported:
                raise
            if proves(ctx, "false"):
                self.infeasible_dropped += 1       # the path constraints are contradictory: nothing is lost
                return
            self.unsupported_paths.append("%s:%s %s" % (f.name.split("::")[-1], bb, ex))

    def _run_block(self, f, bb, env, ctx, depth):
        steps = 0
        while True:
            steps += 1
            if steps > self.max_blocks:
                raise Unsupported("path longer than %d blocks (an unbounded loop?) in %s" % (self.max_blocks, f.name))
            stmts = f.blocks[bb]
            for st in stmts[:-1]:
                self.statement(f, st, env, ctx)
            term = stmts[-1]
            # --- terminators
            if term == "return;":
                self.paths += 1
                if self.paths > self.max_paths:
                    raise PathLimit("more than %d paths" % self.max_paths)
                yield ctx, env.get("_0"), env.store
                return
            if term == "unreachable;":
                return
            m = re.match(r"^goto -> (bb\d+);$", term)
            if m:
                bb = m.group(1)
                continue
            m = re.match(r"^switchInt\((.*)\) -> \[(.*)\];$", term)
            if m:
                v = self.operand(m.group(1), env)
                targets = []
                other = None
                for t in split_top(m.group(2)):
                    k, b = t.split(": ")
                    if k == "otherwise":
                        other = b
                    else:
                        targets.append((int(k), b))
                if isinstance(v, bool):
                    v = int(v)
                if isinstance(v, int):
                    nxt = other
                    for k, b in targets:
                        if k == v:
                            nxt = b
                            break
                    if nxt is None:
                        return
                    bb = nxt
                    continue
                if isinstance(v, Opq):
                    # unconstrained: every listed target, and `otherwise` unless it is the unreachable block
                    for k, b in targets:
                        c2 = ctx.fork(); c2.trace.append("%s:%s opaque=%d" % (f.name, bb, k))
                        yield from self.run_block(f, b, env.fork(), c2, depth + 1)
                    if other and f.blocks[other] != ["unreachable;"]:
                        c2 = ctx.fork(); c2.trace.append("%s:%s opaque=otherwise" % (f.name, bb))
                        yield from self.run_block(f, other, env.fork(), c2, depth + 1)
                    return
                if isinstance(v, BT):
                    v = bool_to_int(v)
                rest = []
                for k, b in targets:
                    cond = cmp_("Eq", v, k)
                    rest.append(bnot(cond))
                    if cond is False:
                        continue
                    if self.feasible(ctx, [bsx(cond)]):
                        c2 = ctx.fork(); c2.assume(cond); c2.trace.append("%s:%s=%d" % (f.name, bb, k))
                        yield from self.run_block(f, b, env.fork(), c2, depth + 1)
                if other:
                    conds = [bsx(r) for r in rest if r is not True]
                    if not any(r is False for r in rest) and self.feasible(ctx, conds):
                        c2 = ctx.fork()
                        for r in rest:
                            c2.assume(r)
                        c2.trace.append("%s:%s=otherwise" % (f.name, bb))
                        yield from self.run_block(f, other, env.fork(), c2, depth + 1)
                return
            m = re.match(r"^assert\((!?)(.*?), \"(.*?)\"(?:, .*)?\) -> \[success: (bb\d+), unwind.*\];$", term)
            if m:
                v = self.operand(m.group(2), env)
                if not isinstance(v, Opq):
                    if m.group(1) == "!":
                        v = bnot(v)
                    if v is False:
                        self.obligations.append(Obligation(f.name, bb, m.group(3), ctx.fork(), False))
                        return
                    if v is not True:
                        self.obligations.append(Obligation(f.name, bb, m.group(3), ctx.fork(), v))
                        ctx.assume(v)
                bb = m.group(4)
                continue
            m = re.match(r"^(.+?) = (.+?)\((.*)\) -> \[return: (bb\d+), unwind.*\];$", term)
            if m:
                dst = parse_place(m.group(1))
                args = [self.operand(a, env) for a in split_top(m.group(3))]
                dst_ty = f.locals.get(dst[0])
                for c2, val, st2 in self.call(m.group(2), args, ctx, env, f, dst_ty):
                    e2 = Env(st2, env.fid)
                    self.write_place(e2, dst, val)
                    yield from self.run_block(f, m.group(4), e2, c2, depth + 1)
                return
            m = re.match(r"^(.+?) = (core|std)::panicking::(\w+)\((.*)\) -> unwind.*;$", term)
            if m:
                self.obligations.append(Obligation(f.name, bb, "panic: " + m.group(4)[:80], ctx.fork(), False))
                return
            m = re.match(r"^drop\(.*\) -> \[return: (bb\d+), unwind.*\];$", term)
            if m:
                bb = m.group(1)
                continue
            raise Unsupported("terminator: " + term)

    def statement(self, f, st, env, ctx):
        if st.startswith(("StorageLive", "StorageDead", "nop", "FakeRead", "PlaceMention", "Retag", "AscribeUserType", "Coverage", "ConstEvalCounter")):
            return
        m = re.match(r"^(.+?) = (.*);$", st)
        if not m:
            raise Unsupported("statement: " + st)
        dst = parse_place(m.group(1))
        dst_ty = f.locals.get(dst[0]) if not dst[1] else None
        if dst_ty is None:
            tm = re.search(r": ([iu](?:8|16|32|64|128|size))\)$", m.group(1))
            dst_ty = tm.group(1) if tm else None
        val = self.rvalue(m.group(2), env, ctx, f, dst_ty)
        self.write_place(env, dst, val)

BINOPS = {"Add", "Sub", "Mul", "Div", "Rem", "BitAnd", "BitOr", "BitXor", "Shl", "Shr", "Eq", "Ne", "Lt", "Le", "Gt", "Ge",
          "AddUnchecked", "SubUnchecked", "MulUnchecked", "ShlUnchecked", "ShrUnchecked"}


# ----------------------------------------------------------------------------- x86 vector intrinsics
# Lane-wise models after the pseudo-code of the Intel intrinsics guide (the same semantics as
# harness/common/intrinsics.rs, which the native self-test compares with the real instructions).
def _signed(ctx, v, w):
    """value of an unsigned w-bit lane read as two's complement"""
    half = 1 << (w - 1)
    if isinstance(v, int):
        return v - (1 << w) if v >= half else v
    if v.hi < half:
        return v
    if v.lo >= half:
        return sub(v, 1 << w)
    return ite(cmp_("Ge", v, half), sub(v, 1 << w), v)

def _unsigned(ctx, v, w):
    return wrap(ctx, v, "u%d" % w)

def _relane(ctx, vec, width):
    if vec.width == width:
        return vec.lanes
    if vec.width < width:
        k = width // vec.width
        out = []
        for i in range(0, len(vec.lanes), k):
            acc = 0
            for j in range(k):
                acc = add(acc, mul(vec.lanes[i + j], 1 << (vec.width * j)))
            out.append(acc)
        return out
    k = vec.width // width
    out = []
    for v in vec.lanes:
        rest = v
        for j in range(k):
            if j < k - 1:
                rest, r = divmod_pow2(ctx, rest, width)
                out.append(r)
            else:
                out.append(rest)
    return out

def _const_bytes(value, nbytes):
    value &= (1 << (8 * nbytes)) - 1
    return [(value >> (8 * i)) & 255 for i in range(nbytes)]

def _sat(ctx, v, lo, hi):
    if isinstance(v, int):
        return max(lo, min(hi, v))
    if v.lo >= lo and v.hi <= hi:
        return v
    r = v
    if v.hi > hi:
        r = ite(cmp_("Gt", v, hi), hi, r)
    if v.lo < lo:
        r = ite(cmp_("Lt", v, lo), lo, r)
    return r

def _i_loadu(ctx, a, g):
    p = a[0]
    if not isinstance(p, Ptr) or len(p.base.data) < p.off + 16:
        raise Unsupported("_mm_loadu_si128 from an unknown pointer")
    return Vec(8, p.base.data[p.off:p.off + 16])

MASK_TERMS = set()      # smt strings of lanes known to be 0 or 255 (comparison results)

def _i_cmpgt8(ctx, a, g):
    x, y = _relane(ctx, a[0], 8), _relane(ctx, a[1], 8)
    out = [ite(cmp_("Gt", _signed(ctx, p, 8), _signed(ctx, q_, 8)), 255, 0) for p, q_ in zip(x, y)]
    for v in out:
        if isinstance(v, T):
            MASK_TERMS.add(v.s)
    return Vec(8, out)

def _i_or(ctx, a, g):
    x, y = _relane(ctx, a[0], 8), _relane(ctx, a[1], 8)
    out = []
    for p, q_ in zip(x, y):
        if isinstance(p, int) and isinstance(q_, int):
            out.append(p | q_)
        elif p == 0 or (isinstance(p, int) and p == 0):
            out.append(q_)
        elif isinstance(q_, int) and q_ == 0:
            out.append(p)
        elif (isinstance(p, int) and p == 255) or (isinstance(q_, int) and q_ == 255):
            out.append(255)
        elif isinstance(p, T) and isinstance(q_, T) and p.s in MASK_TERMS and q_.s in MASK_TERMS:
            r = mk("(ite (or (= %s 255) (= %s 255)) 255 0)" % (p.s, q_.s), 0, 255)
            MASK_TERMS.add(r.s)
            out.append(r)
        else:
            raise Unsupported("_mm_or_si128 of two symbolic lanes")
    return Vec(8, out)

def _i_movemask8(ctx, a, g):
    acc = 0
    for i, v in enumerate(_relane(ctx, a[0], 8)):
        bit = (v >> 7) if isinstance(v, int) else bool_to_int(cmp_("Ge", v, 128))
        acc = add(acc, mul(bit, 1 << i))
    return acc

def _i_slli_si128(ctx, a, g):
    lanes = _relane(ctx, a[0], 8)
    n = min(g, 16)
    return Vec(8, [0] * n + lanes[:16 - n])

def _i_maddubs(ctx, a, g):
    x, y = _relane(ctx, a[0], 8), _relane(ctx, a[1], 8)
    out = []
    for j in range(8):
        p = add(mul(x[2 * j], _signed(ctx, y[2 * j], 8)), mul(x[2 * j + 1], _signed(ctx, y[2 * j + 1], 8)))
        out.append(_unsigned(ctx, _sat(ctx, p, -32768, 32767), 16))
    return Vec(16, out)

def _i_madd16(ctx, a, g):
    x, y = _relane(ctx, a[0], 16), _relane(ctx, a[1], 16)
    out = []
    for j in range(4):
        p = add(mul(_signed(ctx, x[2 * j], 16), _signed(ctx, y[2 * j], 16)), mul(_signed(ctx, x[2 * j + 1], 16), _signed(ctx, y[2 * j + 1], 16)))
        out.append(_unsigned(ctx, p, 32))
    return Vec(32, out)

def _i_packus32(ctx, a, g):
    x, y = _relane(ctx, a[0], 32), _relane(ctx, a[1], 32)
    return Vec(16, [_sat(ctx, _signed(ctx, v, 32), 0, 65535) for v in x + y])

def _i_extract(width):
    def f(ctx, a, g):
        v = _relane(ctx, a[0], width)[g]
        return _signed(ctx, v, 32) if width == 32 else v      # epi8/epi16 zero-extend into i32
    return f

SIMD = {
    "_mm_loadu_si128": _i_loadu,
    "_mm_setzero_si128": lambda ctx, a, g: Vec(8, [0] * 16),
    "_mm_set1_epi8": lambda ctx, a, g: Vec(8, [a[0] & 255 if isinstance(a[0], int) else _unsigned(ctx, a[0], 8)] * 16),
    "_mm_set1_epi64x": lambda ctx, a, g: Vec(8, _const_bytes(a[0], 8) * 2),
    "_mm_set_epi16": lambda ctx, a, g: Vec(16, [x & 65535 for x in reversed(a)]),
    "_mm_sub_epi8": lambda ctx, a, g: Vec(8, [_unsigned(ctx, sub(p, q_), 8) for p, q_ in zip(_relane(ctx, a[0], 8), _relane(ctx, a[1], 8))]),
    "_mm_cmpgt_epi8": _i_cmpgt8,
    "_mm_or_si128": _i_or,
    "_mm_movemask_epi8": _i_movemask8,
    "_mm_slli_si128": _i_slli_si128,
    "_mm_maddubs_epi16": _i_maddubs,
    "_mm_madd_epi16": _i_madd16,
    "_mm_packus_epi32": _i_packus32,
    "_mm_extract_epi8": _i_extract(8),
    "_mm_extract_epi16": _i_extract(16),
    "_mm_extract_epi32": _i_extract(32),
}
