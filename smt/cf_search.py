import re
src = open('/repo/sonic-number/src/table.rs').read()
tab = [(int(a,16), int(b,16)) for a,b in re.findall(r'\(0x([0-9a-f]+), 0x([0-9a-f]+)\)', src)]
W=2**64; M=2**128
def fast_state(sig1,e):
    sig2,ext=tab[e+342]
    P=sig1*sig2; hi=P>>64; lo=P&(W-1)
    bits=hi&511
    hi2=(sig1*ext)>>64
    add=(lo+hi2)&(W-1)
    return bits,add
found=[]; near=[]
for e in range(-306,288):
    sig2,ext=tab[e+342]
    T=sig2*W+ext
    # convergents of T/M
    a,b=T,M
    h0,h1=0,1; k0,k1=1,0
    cands=[]
    while b:
        q=a//b; a,b=b,a-q*b
        h0,h1=h1,q*h1+h0; k0,k1=k1,q*k1+k0
        if k1>=W: break
        cands.append(k1)
    # combos of last few convergent denominators
    base=cands[-6:]
    tried=set()
    import itertools
    for c in itertools.product(range(0,40),repeat=2):
        for (x,y) in itertools.combinations(base[-4:],2):
            s=c[0]*x+c[1]*y
            if s in tried or not (2**63<=s<W): continue
            tried.add(s)
            r=(s*T)%M
            if r>=M-W:
                bits,add=fast_state(s,e)
                if add==W-1 and bits in (0,511):
                    found.append((e,s)); print("FOUND",e,s,bits)
                elif add==W-1:
                    near.append((e,s,bits))
print(len(found),len(near)); print(sorted(set(b for _,_,b in near))[:50])
