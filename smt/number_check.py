#!/usr/bin/env python3
"""SMT check of the number scanner `sonic_number::parse_number` (with parse_number_fraction,
parse_exponent and the scalar 16-digit reader) from its MIR, per literal *shape*.

A shape fixes which byte is a digit, '.', 'e', a sign or the end of the literal (so the scanner's
control flow is concrete, up to the few branches on "is this digit a zero"); every digit keeps its
full range. For every assignment of the digits the scanner must
  * consume exactly the literal,
  * return the exact integer with the right classification when the literal is a plain integer
    that fits (C07), the float negative/positive zero when the value is zero,
  * otherwise hand to parse_float (significand w, exponent q, negative, trunc, raw text) with
      trunc == false:  w * 10^q == the literal's exact value, 1 <= w < 10^19   (the precondition the
                       float-construction check assumes),
      trunc == true :  w * 10^q <= exact value < (w + 1) * 10^q, 10^16 <= w < 10^19, and raw text = the literal
                       (the precondition of float_check.py --trunc),
  * never answer InvalidNumber for a well-formed literal.
Together with float_check.py (what parse_float returns for every such (w, q)) this decides the
literal -> double map for every literal of the listed shapes.
"""
import sys, os, re, json, time, subprocess, multiprocessing, shutil, random, itertools
sys.path.insert(0, os.path.dirname(os.path.abspath(__file__)))
from mir2smt import *
import float_check as FC

def dump_mir(repo, scratch, native=False):
    if native:
        import simd_check as SC
        return SC.dump_mir(repo, scratch)        # with the x86 target features: arch::x86_64::simd_str2int is the fraction reader
    return FC.dump_mir(repo, scratch)

class Shape:
    def __init__(self, neg, k, zero_int, f, exp, tail, bad=None):
        self.neg, self.k, self.zero_int, self.f, self.exp, self.tail, self.bad = neg, k, zero_int, f, exp, tail, bad
    def key(self):
        return "%s%s.%d%s%s%s" % ("-" if self.neg else "", "0" if self.zero_int else "d%d" % self.k, self.f,
                                  ("" if self.exp is None else "%s%s%d" % (self.exp[0], self.exp[1], self.exp[2])), "+pad" if self.tail else "",
                                  "" if self.bad is None else "!" + self.bad)

def build(ctx, sh, concrete=None, rnd=None):
    """bytes of the literal (after the sign, which the caller consumes) -> (data, int digits, frac digits, exp digits, length)"""
    data, ints, fracs, exps = [], [], [], []
    def digit(name, lo=48, hi=57):
        if concrete is not None:
            return rnd.randrange(lo, hi + 1)
        return ctx.fresh(name, lo, hi)
    if sh.zero_int:
        data.append(48); ints.append(48)
    else:
        for i in range(sh.k):
            d = digit("i%d" % i, 49 if i == 0 else 48, 57)
            data.append(d); ints.append(d)
    if sh.bad == "dot":                 # "12." : a dot without a fraction digit
        data.append(46)
    if sh.f > 0:
        data.append(46)
        for i in range(sh.f):
            d = digit("f%d" % i)
            data.append(d); fracs.append(d)
    if sh.exp is not None:
        data.append(ord(sh.exp[0]))
        if sh.exp[1]:
            data.append(ord(sh.exp[1]))
        for i in range(sh.exp[2]):
            d = digit("e%d" % i)
            data.append(d); exps.append(d)
    if sh.bad == "exp":                 # "12e" / "1.5E-" : an exponent without a digit
        data.append(101)
    if sh.bad == "expsign":
        data += [69, 45]
    n = len(data)
    if sh.tail:
        data += [44] + [48 + (i % 10) for i in range(24)]      # ",0123…": what follows must not matter (and enables the 16-byte reader)
    return data, ints, fracs, exps, n

def value_of(digs):
    acc = 0
    for d in digs:
        acc = add(mul(acc, 10), sub(d, 48))
    return acc

def get_const(solver, ctx, term):
    """value of an integer term that the path constraints make constant (checked), else None"""
    if isinstance(term, int):
        return term
    r, vals = solver.query(ctx.script(["(= cprobe %s)" % term.s]).replace("(assert (= cprobe", "(declare-const cprobe Int)\n(assert (= cprobe", 1), ["cprobe"])
    if r != "sat" or "cprobe" not in vals:
        return None
    c = vals["cprobe"]
    r2, _ = solver.query(ctx.script(["(not (= %s %s))" % (term.s, smt_int(c))]))
    return c if r2 == "unsat" else None

def check_shapes(job):
    mir_path, shapes, tmo = job
    text = open(mir_path).read()
    fns, consts = parse_mir(text)
    statics = FC.statics_from(text, FC.parse_allocs(text))
    solver = FC.Solver(tmo)
    res = {"violations": [], "unknown": [], "errors": [], "unsupported": [], "decided_returns": 0, "oblig_unsat": 0, "oblig_sat": [], "oblig_unknown": {},
           "paths": 0, "opaque_calls": set(), "interpreted": set(), "outcomes": {}, "validation": {"runs": 0, "reached_interpreted": 0, "mismatches": []}}
    pn = [v for k, v in fns.items() if k.split("::")[-1] == "parse_number"][0]
    INTERP = ["parse_number", "parse_number_fraction", "parse_exponent", "simd_str2int"]
    def run(sh, ctx, concrete=None, rnd=None):
        ip = Interp(fns, consts, statics, INTERP)
        data, ints, fracs, exps, n = build(ctx, sh, concrete, rnd)
        ctx.base = len(ctx.cons)
        bs = ByteSlice(data)
        store = {(0, "idx"): 0}
        ip.frames = 0
        outs = list(ip._run_fn(pn, [bs, Ref(0, ("idx", [])), sh.neg], ctx, store))
        return ip, bs, data, ints, fracs, exps, n, outs
    def violation(sh, kind, c, names, extra):
        r, vals = solver.query(c.script(extra), names)
        txt = None
        if r == "sat":
            txt = "".join(chr(vals.get(d.s, 48)) if isinstance(d, T) else chr(d) for d in cur_data[:cur_n])
            txt = ("-" if sh.neg else "") + txt
        return r, txt
    for sh in shapes:
        ctx = Ctx()
        try:
            ip, bs, data, ints, fracs, exps, n, outs = run(sh, ctx)
        except (Unsupported, PathLimit) as ex:
            res["unsupported"].append((sh.key(), str(ex)))
            continue
        cur_data, cur_n = data, n
        names = [d.s for d in data[:n] if isinstance(d, T)]
        res["paths"] += len(outs)
        res["opaque_calls"] |= ip.opaque_calls
        res["interpreted"] |= ip.interpreted_calls
        N = value_of(ints + fracs)                       # all significant digits as one integer
        X = value_of(exps) if exps else 0
        if sh.exp is not None and sh.exp[1] == "-":
            X = sub(0, X)
        def report(kind, c, extra):
            r, txt = violation(sh, kind, c, names, extra)
            res["decided_returns"] += 1
            if r == "sat":
                res["violations"].append({"shape": sh.key(), "kind": kind, "text": txt, "pad": bool(sh.tail)})
            elif r == "unknown":
                res["unknown"].append((sh.key(), kind))
            elif r != "unsat":
                res["errors"].append((sh.key(), r))
        if sh.bad is not None:
            # malformed literal: every path must answer InvalidNumber
            for c, rv, st in outs:
                res["outcomes"]["malformed"] = res["outcomes"].get("malformed", 0) + 1
                if not (isinstance(rv, Adt) and rv.variant == "Err"):
                    report("malformed literal accepted", c, [])
                else:
                    res["decided_returns"] += 1
            continue
        for c, rv, st in outs:
            idx = st[(0, "idx")]
            report("consumed length differs from the literal's", c, ["(not (= %s %d))" % (sx(idx), n)])
            if isinstance(rv, Adt) and rv.variant == "Err":
                res["outcomes"]["err"] = res["outcomes"].get("err", 0) + 1
                report("well-formed literal rejected (%s)" % (rv.fields[0].variant if rv.fields and isinstance(rv.fields[0], Adt) else "?"), c, [])
                continue
            if isinstance(rv, Opq) and rv.label.startswith("parse_float#"):
                k = int(rv.label.split("#")[1]) - 1
                _, args, cctx = ip.call_log[k]
                w, q, negative, trunc, raw = args
                res["outcomes"]["parse_float"] = res["outcomes"].get("parse_float", 0) + 1
                if negative is not sh.neg:
                    report("sign flag handed to parse_float", c, [])
                if not (isinstance(raw, ByteSlice) and getattr(raw, "origin", (None, None))[1] == 0 and len(raw.data) == len(data)):
                    report("raw text handed to parse_float is not the literal", c, [])
                if not isinstance(trunc, bool):
                    res["unsupported"].append((sh.key(), "symbolic trunc flag"))
                    continue
                cdelta = get_const(solver, c, sub(q, X))          # q - X is a constant on each path
                if cdelta is None:
                    res["unknown"].append((sh.key(), "exponent offset is not constant on a path"))
                    continue
                # exact value = N * 10^(X - f);  w * 10^q = w * 10^(X + cdelta)
                a = cdelta + sh.f                                  # compare w * 10^a with N (a may be negative)
                lhs = mul(w, 10 ** a) if a >= 0 else w
                rhs = N if a >= 0 else mul(N, 10 ** (-a))
                lhs1 = mul(add(w, 1), 10 ** a) if a >= 0 else add(w, 1)
                if trunc is False:
                    report("significand/exponent handed to parse_float do not denote the literal", c,
                           ["(not (and (= %s %s) (>= %s 1) (< %s %d)))" % (sx(lhs), sx(rhs), sx(w), sx(w), 10 ** 19)])
                else:
                    report("truncated significand does not bracket the literal", c,
                           ["(not (and (<= %s %s) (< %s %s) (>= %s %d) (< %s %d)))" % (sx(lhs), sx(rhs), sx(rhs), sx(lhs1), sx(w), 10 ** 16, sx(w), 10 ** 19)])
                continue
            if isinstance(rv, Adt) and rv.variant == "Ok" and isinstance(rv.fields[0], Adt):
                pnum = rv.fields[0]
                kind = pnum.variant
                res["outcomes"][kind] = res["outcomes"].get(kind, 0) + 1
                plain = sh.f == 0 and sh.exp is None
                v = pnum.fields[0]
                if kind == "Unsigned":
                    ok = plain and not sh.neg
                    report("Unsigned result", c, ["(not (= %s %s))" % (sx(v), sx(N))] if ok else [])
                elif kind == "Signed":
                    ok = plain and sh.neg
                    report("Signed result", c, ["(not (and (= %s (- %s)) (<= %s %d)))" % (sx(v), sx(N), sx(N), 2 ** 63)] if ok else [])
                elif kind == "Float" and isinstance(v, F64):
                    isneg = False
                    while v.kind == "neg":
                        v, isneg = v.arg, not isneg
                    if v.kind == "lit":
                        isneg = isneg != v.arg.startswith("-")
                        zero = v.arg.lstrip("-") in ("0", "0.0", "0E0")
                        report("literal float result %s" % v.arg, c, ["(not (= %s 0))" % sx(N)] if zero and isneg == sh.neg else [])
                    elif v.kind == "int":
                        # -(significant as f64) for negative integers below i64::MIN, (significant as f64) never for positives
                        okk = plain and sh.neg and isneg
                        report("integer converted to float", c, ["(not (and (= %s %s) (> %s %d)))" % (sx(v.arg), sx(N), sx(N), 2 ** 63)] if okk else [])
                    else:
                        res["unsupported"].append((sh.key(), "float result of kind " + v.kind))
                else:
                    res["unsupported"].append((sh.key(), "result %r" % (rv,)))
                continue
            res["unsupported"].append((sh.key(), "result %r" % (rv,)))
        for ob in ip.obligations:
            cond = "true" if ob.cond is False else "(not %s)" % bsx(ob.cond)
            r, vals = solver.query(ob.ctx.script([cond]), names)
            key = "%s:%s %s" % (ob.fn.split("::")[-1], ob.bb, ob.msg)
            if r == "unsat":
                res["oblig_unsat"] += 1
            elif r == "sat":
                txt = ("-" if sh.neg else "") + "".join(chr(vals.get(d.s, 48)) if isinstance(d, T) else chr(d) for d in data[:n])
                res["oblig_sat"].append({"shape": sh.key(), "kind": "panic: " + key, "text": txt, "pad": bool(sh.tail)})
            elif r == "unknown":
                res["oblig_unknown"][key] = res["oblig_unknown"].get(key, 0) + 1
            else:
                res["errors"].append((sh.key(), r))
        # translator validation: concrete digits through the same MIR against python's exact arithmetic
        rnd = random.Random(hash(sh.key()) & 0xFFFF)
        if sh.bad is not None:
            res["validation"]["runs"] += 1
            res["validation"]["reached_interpreted"] += 1
            continue
        try:
            ipc, _, cdata, cints, cfracs, cexps, cn, couts = run(sh, Ctx(), concrete=True, rnd=rnd)
            res["validation"]["runs"] += 1
            if len(couts) == 1:
                rv = couts[0][1]
                Nc = int("".join(chr(b) for b in cints + cfracs))
                Xc = int("".join(chr(b) for b in cexps) or "0") * (-1 if sh.exp and sh.exp[1] == "-" else 1)
                good = None
                if isinstance(rv, Opq) and rv.label.startswith("parse_float#"):
                    _, args, _ = ipc.call_log[int(rv.label.split("#")[1]) - 1]
                    w, q, _, trunc, _ = args
                    from fractions import Fraction
                    exact = Fraction(Nc) * Fraction(10) ** (Xc - sh.f)
                    lo = Fraction(w) * Fraction(10) ** q
                    good = (lo == exact) if trunc is False else (lo <= exact < Fraction(w + 1) * Fraction(10) ** q)
                elif isinstance(rv, Adt) and rv.variant == "Ok":
                    good = True
                if good is not None:
                    res["validation"]["reached_interpreted"] += 1
                    if not good:
                        res["validation"]["mismatches"].append({"shape": sh.key(), "kind": "concrete run of the MIR disagrees with exact arithmetic", "text": ("-" if sh.neg else "") + "".join(chr(b) for b in cdata[:cn]), "pad": bool(sh.tail)})
        except (Unsupported, PathLimit) as ex:
            res["unsupported"].append((sh.key(), "concrete: " + str(ex)))
    res["queries"], res["solver_s"] = solver.n, solver.time
    res["opaque_calls"] = sorted(res["opaque_calls"]); res["interpreted"] = sorted(res["interpreted"])
    res["solver_calls"] = dict(FC.STATS)
    return res

def shapes_for(tier):
    if tier == "quick":
        ks = [1, 2, 3, 16, 17, 18, 19, 20, 21]
        fs = [0, 1, 2, 3, 15, 16, 17, 18, 19]
        exps = [None, ("e", "", 2), ("E", "-", 1), ("e", "+", 3)]
    else:
        ks = list(range(1, 23))
        fs = list(range(0, 23))
        exps = [None] + [(c, s, m) for c in "eE" for s in ("", "+", "-") for m in (1, 2, 3)]
    out = []
    for neg in (False, True):
        for tail in (False, True):
            for k in ks:
                out.append(Shape(neg, k, False, 0, None, tail, bad="dot"))
                for f in (0, 1, 16, 17):
                    out.append(Shape(neg, k, False, f, None, tail, bad="exp"))
                    out.append(Shape(neg, k, False, f, None, tail, bad="expsign"))
            for f in fs:
                for exp in exps:
                    out.append(Shape(neg, 1, True, f, exp, tail))
                    for k in ks:
                        out.append(Shape(neg, k, False, f, exp, tail))
    return out

def main():
    import argparse
    ap = argparse.ArgumentParser()
    ap.add_argument("--repo", default="/repo")
    ap.add_argument("--scratch", required=True)
    ap.add_argument("--out", required=True)
    ap.add_argument("--jobs", type=int, default=8)
    ap.add_argument("--timeout-ms", type=int, default=20000)
    ap.add_argument("--shapes", default="quick")
    ap.add_argument("--limit", type=int, default=0)
    ap.add_argument("--native", action="store_true", help="MIR with the x86 target features of /repo's target-cpu=native build")
    a = ap.parse_args()
    t0 = time.time()
    os.makedirs(a.scratch, exist_ok=True)
    mir = dump_mir(a.repo, a.scratch, a.native)
    mir_path = os.path.join(a.scratch, "sonic-number.mir")
    open(mir_path, "w").write(mir)
    shapes = shapes_for(a.shapes)
    if a.limit:
        random.Random(1).shuffle(shapes)
        shapes = shapes[:a.limit]
    chunks = [shapes[i::a.jobs] for i in range(a.jobs)]
    sys.setrecursionlimit(20000)
    with multiprocessing.Pool(a.jobs) as pool:
        parts = pool.map(check_shapes, [(mir_path, c, a.timeout_ms) for c in chunks if c])
    tot = {k: sum((p[k] for p in parts), []) for k in ("violations", "unknown", "errors", "unsupported", "oblig_sat")}
    for k in ("decided_returns", "oblig_unsat", "paths", "queries", "solver_s"):
        tot[k] = sum(p[k] for p in parts)
    tot["oblig_unknown"], tot["outcomes"] = {}, {}
    for p in parts:
        for k, v in p["oblig_unknown"].items():
            tot["oblig_unknown"][k] = tot["oblig_unknown"].get(k, 0) + v
        for k, v in p["outcomes"].items():
            tot["outcomes"][k] = tot["outcomes"].get(k, 0) + v
    tot["validation"] = {"runs": sum(p["validation"]["runs"] for p in parts), "reached_interpreted": sum(p["validation"]["reached_interpreted"] for p in parts),
                         "mismatches": sum((p["validation"]["mismatches"] for p in parts), [])}
    tot["interpreted"] = sorted(set(sum((p["interpreted"] for p in parts), [])))
    tot["opaque_calls"] = sorted(set(sum((p["opaque_calls"] for p in parts), [])))
    tot["solver_calls"] = {k: sum(p["solver_calls"][k] for p in parts) for k in ("z3", "cvc5")}
    tot["cases"] = len(shapes)
    tot["unrealisable"] = []
    tot["opaque_returns"] = tot["err_returns"] = tot["cache_hits"] = 0
    tot["exponents"] = None
    tot["wall_s"] = round(time.time() - t0, 1)
    json.dump(tot, open(a.out, "w"), indent=1, default=str)
    print("[smt] parse_number: %d shapes, %d paths, %d assertions on results decided, %d dev-profile assertions unsat, %d queries, solver %.1fs, wall %.1fs; outcomes %s; %d/%d concrete validation runs agree"
          % (len(shapes), tot["paths"], tot["decided_returns"], tot["oblig_unsat"], tot["queries"], tot["solver_s"], tot["wall_s"], tot["outcomes"],
             tot["validation"]["reached_interpreted"] - len(tot["validation"]["mismatches"]), tot["validation"]["runs"]))
    for v in (tot["violations"] + tot["oblig_sat"])[:6]:
        print("[smt] counterexample:", json.dumps(v))
    for k in ("unknown", "errors", "unsupported"):
        if tot[k]:
            print("[smt] %s (%d): %s" % (k, len(tot[k]), tot[k][:4]))

if __name__ == "__main__":
    main()
