//! Native replay for the simd_str2int check: the real SSE kernel (the file is included from the
//! scratch copy of /repo, built with -C target-cpu=native) against the scalar definition on the
//! exact 16 bytes the solver returned. usage: <need> <32 hex digits> ...
#[allow(dead_code, unused_imports, clippy::all)]
#[path = "@REPO@/sonic-number/src/arch/x86_64.rs"]
mod native;

fn scalar(c: &[u8], need: usize) -> (u64, usize) {
    let (mut sum, mut i) = (0u64, 0usize);
    while i < need && c[i].is_ascii_digit() {
        sum = (c[i] - b'0') as u64 + sum * 10;
        i += 1;
    }
    (sum, i)
}

fn main() {
    let a: Vec<String> = std::env::args().skip(1).collect();
    let mut bad = 0;
    for pair in a.chunks(2) {
        let need: usize = pair[0].parse().unwrap();
        let bytes: Vec<u8> = (0..16).map(|i| u8::from_str_radix(&pair[1][2 * i..2 * i + 2], 16).unwrap()).collect();
        let want = scalar(&bytes, need);
        let got = std::panic::catch_unwind(|| unsafe { native::simd_str2int(&bytes, need) });
        match got {
            Ok(g) if g == want => println!("REPLAY need={} bytes={} got={:?} verdict=same", need, pair[1], g),
            Ok(g) => {
                println!("REPLAY need={} bytes={} got={:?} want={:?} verdict=differs", need, pair[1], g, want);
                bad += 1;
            }
            Err(_) => {
                println!("REPLAY need={} bytes={} verdict=panic", need, pair[1]);
                bad += 1;
            }
        }
    }
    std::process::exit(if bad > 0 { 1 } else { 0 });
}
