#!/bin/sh
# MANIFEST.setup_cmd: build the native self-test of the reference models (offline, files on disk only)
set -e
cd "$(dirname "$0")/selftest"
CARGO_NET_OFFLINE=true cargo build --release --offline 2>&1 | tail -3
./target/release/verif-selftest
